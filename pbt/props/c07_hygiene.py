"""C07 -- macro expansion is hygienic and referentially transparent.

Programs are assembled from a library of macro shapes (binding-introducing, free-reference,
nested ellipsis, literals, macro-defining macros, let-syntax closing over locals, local
shadowing of core keywords), each available as syntax-rules and, where expressible, as
er- / sc- / rsc-macro-transformer.  A case is a program plus a consistent renaming of its
user binders drawn from fresh names, names used inside the macro templates (tmp, loop, i,
limit, helper ...), core keywords and standard procedures.  Oracles: (metamorphic) the
renamed program prints what the un-renamed one prints; (absolute) both print the value
computed in Python from the scenario's parameters.
Soundness rule: a target name is admissible for a binder only if user-written code does not
use that name as a keyword or free reference inside the binder's scope (the generator knows
the vocabulary of the code it wrote).
"""
import random

from hypothesis import strategies as st

from .. import engine as E
from ..worker import Driver

VARIANTS = ["plain"]
IMPORTS = ["(scheme base)", "(scheme write)", "(only (chibi) er-macro-transformer sc-macro-transformer rsc-macro-transformer make-syntactic-closure)"]
RULE = ("case = (program assembled from 12 macro-use scenarios nested inside wrapper binders, macro definitions in syntax-rules / "
        "er / sc / rsc style, renaming of every user binder); renaming targets: fresh names, names free in macro templates, core "
        "keywords, standard procedures, subject to the admissibility rule; non-trivial iff >= 1 binder that is in scope at a "
        "macro use is renamed onto a name occurring in a macro template or a core keyword; distinct by (program, renaming)")
ASSUMPTIONS = ["scenario expected values are computed by hand-written Python functions",
               "renamings are injective per scope (except the documented let-syntax alias scenario)"]

MACROS = {
    "my-or": {
        "sr": "(define-syntax my-or (syntax-rules () ((_ a b) (let ((tmp a)) (if tmp tmp b)))))",
        "er": "(define-syntax my-or (er-macro-transformer (lambda (f r c) (list (r 'let) (list (list (r 'tmp) (cadr f))) (list (r 'if) (r 'tmp) (r 'tmp) (car (cddr f)))))))",
        "sc": "(define-syntax my-or (sc-macro-transformer (lambda (f env) (let ((a (make-syntactic-closure env '() (cadr f))) (b (make-syntactic-closure env '() (car (cddr f))))) `(let ((tmp ,a)) (if tmp tmp ,b))))))",
    },
    "swap!": {
        "sr": "(define-syntax swap! (syntax-rules () ((_ a b) (let ((tmp a)) (set! a b) (set! b tmp)))))",
        "er": "(define-syntax swap! (er-macro-transformer (lambda (f r c) (let ((a (cadr f)) (b (car (cddr f)))) (list (r 'let) (list (list (r 'tmp) a)) (list (r 'set!) a b) (list (r 'set!) b (r 'tmp)))))))",
    },
    "while": {
        "sr": "(define-syntax while (syntax-rules () ((_ c body ...) (let loop () (when c body ... (loop))))))",
        "er": "(define-syntax while (er-macro-transformer (lambda (f r c) (list (r 'let) (r 'loop) '() (cons (r 'when) (cons (cadr f) (append (cddr f) (list (list (r 'loop))))))))))",
    },
    "for": {
        "sr": "(define-syntax for (syntax-rules () ((_ (x from to) body ...) (let ((limit to)) (do ((i from (+ i 1))) ((>= i limit)) (let ((x i)) body ...))))))",
    },
    "add-helper": {
        "sr": "(define-syntax add-helper (syntax-rules () ((_ x) (helper x 1))))",
        "er": "(define-syntax add-helper (er-macro-transformer (lambda (f r c) (list (r 'helper) (cadr f) 1))))",
        "rsc": "(define-syntax add-helper (rsc-macro-transformer (lambda (f env) (list (make-syntactic-closure env '() 'helper) (cadr f) 1))))",
    },
    "my-list": {
        "sr": "(define-syntax my-list (syntax-rules () ((_ a b) (list a b))))",
        "er": "(define-syntax my-list (er-macro-transformer (lambda (f r c) (list (r 'list) (cadr f) (car (cddr f))))))",
    },
    "my-if": {
        "sr": "(define-syntax my-if (syntax-rules () ((_ c a b) (cond (c a) (else b)))))",
        "er": "(define-syntax my-if (er-macro-transformer (lambda (f r c) (list (r 'cond) (list (cadr f) (car (cddr f))) (list (r 'else) (cadr (cddr f)))))))",
    },
    "my-let*": {
        "sr": "(define-syntax my-let* (syntax-rules () ((_ () body ...) (let () body ...)) ((_ ((n v) rest ...) body ...) (let ((n v)) (my-let* (rest ...) body ...)))))",
    },
    "flatten-pairs": {
        "sr": "(define-syntax flatten-pairs (syntax-rules () ((_ (a b ...) ...) (list (list a b ...) ... 'end))))",
    },
    "my-cond2": {
        "sr": "(define-syntax my-cond2 (syntax-rules (else) ((_ (else e)) (list 'else-branch e)) ((_ (c e)) (if c (list 'test-branch e) 'no))))",
    },
    "arith": {
        "sr": "(define-syntax arith (syntax-rules (by) ((_ a by b) (* a b)) ((_ a op b) (op a b))))",
    },
    "with-lister": {
        # a macro whose template defines a local macro: identifiers of the inner template are renamed twice
        "sr": "(define-syntax with-lister (syntax-rules () ((_ name body) (let-syntax ((name (syntax-rules () ((_ x (... ...)) (list x (... ...)))))) body))))",
    },
    "for-range": {
        # the macro's own temporaries share a parameter list with a user-named variable
        "sr": "(define-syntax for-range (syntax-rules () ((_ (var from to) body ...) (let loop ((var from) (limit to)) (if (< var limit) (begin body ... (loop (+ var 1) limit)))))))",
    },
    "def-with-tmp": {
        "sr": "(define-syntax def-with-tmp (syntax-rules () ((_ name val) (begin (define tmp val) (define (name) tmp)))))",
    },
    "def-const-macro": {
        "sr": "(define-syntax def-const-macro (syntax-rules () ((_ name val) (define-syntax name (syntax-rules () ((_) val))))))\n(def-const-macro five 5)",
    },
}
TEMPLATE_NAMES = ["tmp", "loop", "i", "limit", "helper", "x", "by", "len", "ls", "res", "expr", "rename", "compare"]
KEYWORDS = ["if", "let", "set!", "when", "cond", "else", "do", "lambda", "begin", "and", "or", "case", "unless", "quote", "define", "=>", "let*", "letrec"]
PROCS = ["list", "+", ">=", "cons", "car", "not", "vector", "apply", "map", "*", "-", "<", "="]


def sc_list(xs):
    return "(" + " ".join(sc(x) for x in xs) + ")"


def sc(x):
    if isinstance(x, bool):
        return "#t" if x else "#f"
    if isinstance(x, list):
        return sc_list(x)
    return str(x)


# scenario: (macros used, template with {b0}.. binders and {k0}.. constants, n binders, vocabulary of the user code, expected fn)
SCENARIOS = [
    ("or1", ["my-or"], "(let (({b0} {k0})) (my-or #f {b0}))", 1, {"let"}, lambda k: k[0]),
    ("or2", ["my-or"], "(let (({b0} #f) ({b1} {k1})) (my-or {b0} {b1}))", 2, {"let"}, lambda k: k[1]),
    ("or3", ["my-or"], "(let (({b0} {k0})) (my-or {b0} (car '())))", 1, {"let", "car", "quote"}, lambda k: k[0]),
    ("swap", ["swap!"], "(let (({b0} {k0}) ({b1} {k1})) (swap! {b0} {b1}) (list {b0} {b1}))", 2, {"let", "list"}, lambda k: [k[1], k[0]]),
    ("while", ["while"], "(let (({b0} 0) ({b1} 0)) (while (< {b0} {k0}) (set! {b1} (+ {b1} {b0})) (set! {b0} (+ {b0} 1))) {b1})", 2,
     {"let", "<", "set!", "+"}, lambda k: sum(range(max(k[0], 0)))),
    ("for", ["for"], "(let (({b0} 0)) (for ({b1} 0 {k0}) (set! {b0} (+ {b0} {b1}))) {b0})", 2, {"let", "set!", "+"}, lambda k: sum(range(max(k[0], 0)))),
    ("helper", ["add-helper"], "(let (({b0} {k0})) (add-helper {b0}))", 1, {"let"}, lambda k: k[0] + 1),
    ("mylist", ["my-list"], "(let (({b0} {k0}) ({b1} {k1})) (my-list {b1} {b0}))", 2, {"let"}, lambda k: [k[1], k[0]]),
    ("myif", ["my-if"], "(let (({b0} #t) ({b1} {k1})) (my-if {b0} {b1} 0))", 2, {"let"}, lambda k: k[1]),
    ("mylet*", ["my-let*"], "(my-let* (({b0} {k0}) ({b1} (+ {b0} 1))) (* {b0} {b1}))", 2, {"+", "*"}, lambda k: k[0] * (k[0] + 1)),
    ("flatten", ["flatten-pairs"], "(let (({b0} {k0}) ({b1} {k1})) (flatten-pairs ({b0} {b1}) ({b1}) ({b0} {b0} {b1})))", 2, {"let"},
     lambda k: [[k[0], k[1]], [k[1]], [k[0], k[0], k[1]], "end"]),
    ("cond2", ["my-cond2"], "(let (({b0} {k0})) (my-cond2 (else {b0})))", 1, {"let", "else"}, lambda k: ["else-branch", k[0]]),
    ("cond2b", ["my-cond2"], "(let (({b0} {k0})) (my-cond2 ((< {b0} 1000) {b0})))", 1, {"let", "<"}, lambda k: ["test-branch", k[0]]),
    ("const", ["def-const-macro"], "(let (({b0} {k0})) (+ {b0} (five)))", 1, {"let", "+", "five"}, lambda k: k[0] + 5),
    ("letsyntax", [], "(let (({b0} {k0})) (let-syntax ((get (syntax-rules () ((_) {b0})))) (let (({b1} {k1})) (list (get) {b1}))))", 2,
     {"let", "let-syntax", "syntax-rules", "list", "get", "_"}, lambda k: [k[0], k[1]]),
    ("letrecsyntax", [], "(let (({b0} {k0})) (letrec-syntax ((ev? (syntax-rules () ((_) {b0}) ((_ x y ...) (od? y ...)))) (od? (syntax-rules () ((_) 'odd) ((_ x y ...) (ev? y ...))))) (let (({b1} {k1})) (list (ev? 1 2) (od? 1) {b1}))))", 2,
     {"let", "letrec-syntax", "syntax-rules", "quote", "list", "ev?", "od?", "_", "x", "y", "..."}, lambda k: [k[0], k[0], k[1]]),
    ("shadowif", [], "(let (({b0} {k0})) (let-syntax ((if (syntax-rules () ((_ a b c) (list a b c))))) (if {b0} 2 3)))", 1,
     {"let", "let-syntax", "syntax-rules", "if", "list", "_", "a", "b", "c"}, lambda k: [k[0], 2, 3]),
    ("lambda-or", ["my-or"], "((lambda ({b0} {b1}) (my-or {b0} {b1})) #f {k1})", 2, {"lambda"}, lambda k: k[1]),
    ("namedlet", ["my-or"], "(let {b0} (({b1} {k0})) (if (< {b1} 3) ({b0} (+ {b1} 1)) (my-or #f {b1})))", 2, {"let", "if", "<", "+"}, lambda k: max(k[0], 3)),
    # pattern variables of a locally defined macro may be spelled like the temporaries of the syntax-rules compiler itself
    ("patvar-tail", [], "(let-syntax ((m (syntax-rules () ((_ {b0} mid ... {b1}) (list {b0} {b1} 'mids mid ...))))) (m {k0} 1 2 {k1}))", 2,
     {"list", "quote", "mid", "m", "let-syntax", "syntax-rules", "mids"}, lambda k: [k[0], k[1], "mids", 1, 2]),
    ("patvar-nested", [], "(let-syntax ((m (syntax-rules () ((_ ({b0} {b1} ...) ...) (list (list {b0} {b1} ...) ...))))) (m ({k0} 2 3) (4 {k1})))", 2,
     {"list", "m", "let-syntax", "syntax-rules"}, lambda k: [[k[0], 2, 3], [4, k[1]]]),
    ("patvar-vector", [], "(let-syntax ((m (syntax-rules () ((_ #({b0} {b1} ...) tail) (list {b0} (list {b1} ...) tail))))) (m #({k0} 2 3) {k1}))", 2,
     {"list", "m", "let-syntax", "syntax-rules", "tail"}, lambda k: [k[0], [2, 3], k[1]]),
    # a locally bound variable spelled like a pattern literal must not match the literal
    ("literal-bound", ["arith"], "(let (({b0} +)) (arith 2 {b0} {k0}))", 1, {"let", "+"}, lambda k: 2 + k[0]),
    ("literal-free", ["arith"], "(let (({b0} {k0})) (arith {b0} by 3))", 1, {"let", "by"}, lambda k: k[0] * 3),
    ("cond2c", ["my-cond2"], "(let (({b0} #f) ({b1} {k1})) (my-cond2 ({b0} {b1})))", 2, {"let"}, lambda k: "no"),
    ("lister", ["with-lister"], "(let (({b0} {k0})) (with-lister mk (cons {b0} (mk 1 2))))", 1, {"let", "cons", "mk"}, lambda k: [k[0], 1, 2]),
    ("for-range", ["for-range"], "(let (({b0} 0)) (for-range ({b1} 0 {k0}) (set! {b0} (+ {b0} {b1}))) {b0})", 2, {"let", "set!", "+"}, lambda k: sum(range(max(k[0], 0)))),
    ("def-with-tmp", ["def-with-tmp"], "(let () (define {b0} {k0}) (def-with-tmp get 100) (list {b0} (get)))", 1, {"let", "define", "list", "get"}, lambda k: [k[0], 100]),
    ("def-with-tmp2", ["def-with-tmp"], "(let () (def-with-tmp get 100) (define {b0} {k0}) (list {b0} (get)))", 1, {"let", "define", "list", "get"}, lambda k: [k[0], 100]),
    ("do-or", ["my-or", "my-list"], "(do (({b0} 0 (+ {b0} 1)) ({b1} '() (my-list {b0} {b1}))) ((= {b0} 2) (my-or #f {b1})))", 2, {"do", "+", "=", "quote"},
     lambda k: [1, [0, []]]),
]


class Case(object):
    pass


def gen_case(ch):
    """returns dict: styles, scenario list [(index, ks, wrappers)], renaming list per scenario"""
    n = 1 + ch.n(3)
    items = []
    used_macros = set()
    for _ in range(n):
        si = ch.n(len(SCENARIOS))
        name, macros, tmpl, nb, vocab, fn = SCENARIOS[si]
        ks = [ch.pick([0, 1, 2, 3, 5, 7, 11]) for _ in range(3)]
        nwrap = ch.n(3)
        # binders: wrappers first (outer to inner), then the scenario's own
        total = nwrap + nb
        names = []
        taken = set()
        vocab_all = set(vocab) | {"let"} | ({"quote"} if nwrap else set())
        for bi in range(total):
            kind = ch.n(4)
            if kind == 0:
                nm = "u%d" % bi
            else:
                pool = TEMPLATE_NAMES if kind == 1 else KEYWORDS if kind == 2 else PROCS
                cand = [p for p in pool if p not in vocab_all and p not in taken and p not in macros_names(macros)]
                nm = ch.pick(cand) if cand else "u%d" % bi
            taken.add(nm)
            names.append(nm)
        alias = False
        if name == "letsyntax" and ch.p(0.3):
            names[nwrap + 1] = names[nwrap]       # inner binder takes the outer binder's name (alpha-equivalent here)
            alias = True
        items.append({"s": si, "k": ks, "wrap": nwrap, "names": names, "alias": alias})
        used_macros.update(macros)
    styles = {}
    for m in sorted(used_macros):
        styles[m] = ch.pick(sorted(MACROS[m]))
    return {"items": items, "styles": styles}


def macros_names(macros):
    out = set(macros)
    if "def-const-macro" in macros:
        out.add("five")
    return out


def render(case, renamed):
    defs = ["(define (helper a b) (+ a b))"]
    for m, style in sorted(case["styles"].items()):
        defs.append(MACROS[m][style])
    exprs = []
    for it in case["items"]:
        name, macros, tmpl, nb, vocab, fn = SCENARIOS[it["s"]]
        total = it["wrap"] + nb
        names = it["names"] if renamed else ["u%d" % i for i in range(total)]
        if not renamed and it["alias"]:
            names = list(names)
        d = {}
        for j in range(nb):
            d["b%d" % j] = names[it["wrap"] + j]
        for j, k in enumerate(it["k"]):
            d["k%d" % j] = k
        e = tmpl.format(**d)
        for w in range(it["wrap"] - 1, -1, -1):
            e = "(let ((%s 'w%d)) %s)" % (names[w], w, e)
        exprs.append(e)
    return "\n".join(defs) + "\n(write (list %s))\n(newline)\n" % " ".join(exprs)


def expected(case):
    vals = []
    for it in case["items"]:
        name, macros, tmpl, nb, vocab, fn = SCENARIOS[it["s"]]
        vals.append(fn(it["k"]))
    return sc(vals)


def nontrivial(case):
    for it in case["items"]:
        name, macros, tmpl, nb, vocab, fn = SCENARIOS[it["s"]]
        for nm in it["names"]:
            if nm in TEMPLATE_NAMES or nm in KEYWORDS or nm in ("list", ">=", "+"):
                return True
    return False


_D = None


def driver():
    global _D
    if _D is None:
        _D = Driver("plain", imports=IMPORTS)
    return _D


def check(case):
    exp = expected(case)
    outs = []
    for renamed in (False, True):
        text = render(case, renamed)
        r = driver().run(text, cpu=5)
        if r.status in ("cpu", "wall"):
            return None, "inconclusive"
        if r.status != "ok":
            return E.Found("crash", "chibi died: %s %s\n%s" % (r.status, r.err[-500:], text)), "ok"
        outs.append((r.body.strip(), text))
    if outs[0][0] != exp:
        return E.Found("base-program-wrong", "un-renamed program printed %r, expected %r\n%s" % (outs[0][0], exp, outs[0][1])), "ok"
    if outs[1][0] != outs[0][0]:
        return E.Found("renaming-changes-result", "un-renamed: %r\nrenamed:    %r\nexpected:   %r\nrenamed program:\n%s" % (outs[0][0], outs[1][0], exp, outs[1][1])), "ok"
    return None, "ok"


def shards(tier, seed, nshards, known):
    return [{"tier": tier, "seed": seed, "shard": i, "nshards": nshards, "known": known} for i in range(nshards)]


def run_shard(spec):
    res = E.ShardResult()
    quick = spec["tier"] != "thorough"
    rng = random.Random(E.subseed(spec["seed"], "C07", spec["shard"]))
    last = {}

    def test(data):
        case = gen_case(E.HypChooser(data))
        found, status = check(case)
        if status == "inconclusive":
            res.inconclusive += 1
            return
        nt = nontrivial(case)
        res.case({"renamed_program": render(case, True)}, nt,
                 cls=["scn:" + SCENARIOS[it["s"]][0] for it in case["items"]] + ["style:%s=%s" % kv for kv in case["styles"].items()],
                 sample=nt and rng.random() < 0.02)
        if found:
            last["case"] = case
            raise found

    E.hypothesis_search(st.data(), test, E.subseed(spec["seed"], "C07h", spec["shard"]), 900 if quick else 60000, res,
                        to_case=lambda d: last.get("case"))
    if _D is not None:
        _D.close()
    return res


def replay(case):
    found, status = check(case)
    if found:
        return {"signature": found.signature, "detail": found.detail, "case": case}
    return None
