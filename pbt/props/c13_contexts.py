"""C13 -- independent contexts are isolated and can run in parallel OS threads.

harness/vthreads.c creates contexts without a parent (own heap, standard environment) and
drives them from 1-16 OS threads according to a generated script: per thread a start delay
and a sequence of create / run-program / collect / destroy operations over up to 4 contexts.
Programs are workloads (C-backed libraries, symbols, record types, bignums, hash tables,
green threads inside the context, string ports, collections), mutators (redefine standard
procedures, intern symbols, register types, mutate quoted constants, set parameters) and a
probe that prints what a pristine context shows.

Oracle: the outputs of the programs run in one context equal the outputs of the same program
sequence run alone in one context of a fresh single-threaded process (so nothing evaluated
in, or done to, any other context is observable and every context computes what it computes
alone); the ThreadSanitizer build must print no data-race report; the process must not crash.
"""
import os
import random
import re
import subprocess
import tempfile

from hypothesis import strategies as st

from .. import build as B
from .. import engine as E

VARIANTS = ["tsan", "plain", "asan"]
RULE = ("case = script for 1-16 OS threads, each with a start delay and 3-14 operations (create / run / collect / destroy) over <= 4 "
        "contexts; non-trivial iff >= 2 threads each run >= 1 program, or one thread runs a mutator in one context and a probe in "
        "another afterwards; distinct by script digest")
ASSUMPTIONS = ["every context is created with sexp_make_eval_context(NULL, ...) and used by one OS thread only",
               "the single-context single-thread run of the same program sequence (plain build, fresh process) is the reference",
               "TSan sees the interpreter and the dynamically loaded C libraries (all built with -fsanitize=thread)"]

# ---- workloads: (name, program text); every program prints deterministic text
WORK = {
    "lists": """(import (scheme base) (scheme write) (srfi 1))
(write (fold + 0 (iota %(n)d)))
(write (length (filter even? (iota %(n)d))))
(write (last (list-tabulate 50 (lambda (i) (* i i)))))""",
    "hash": """(import (scheme base) (scheme write) (srfi 69))
(define h (make-hash-table))
(do ((i 0 (+ i 1))) ((= i %(n)d)) (hash-table-set! h (number->string i) (* i i)))
(write (hash-table-size h))
(write (hash-table-ref/default h "17" 'none))
(write (hash-table-ref/default h "nope" 'none))""",
    "symbols": """(import (scheme base) (scheme write))
(define (mk i) (string->symbol (string-append "sym-%(tag)s-" (number->string i))))
(define syms (let lp ((i 0) (acc '())) (if (= i %(n)d) acc (lp (+ i 1) (cons (mk i) acc)))))
(write (length syms))
(write (eq? (mk 3) (mk 3)))
(write (car syms))""",
    "records": """(import (scheme base) (scheme write))
(define-record-type point-%(tag)s (make-point x y) point? (x px set-px!) (y py))
(define-record-type box-%(tag)s (make-box v) box? (v unbox))
(define p (make-point 1 %(n)d))
(set-px! p 7)
(write (list (px p) (py p) (point? p) (box? p) (unbox (make-box 'b))))
(write p)""",
    "bignum": """(import (scheme base) (scheme write))
(define (fact n) (if (= n 0) 1 (* n (fact (- n 1)))))
(write (modulo (fact %(n)d) 1000000007))
(write (exact (floor (sqrt (fact 20)))))
(write (/ (fact 10) (fact 12)))""",
    "sort": """(import (scheme base) (scheme write) (srfi 95))
(define (lcg x) (modulo (+ (* x 1103515245) 12345) 2147483648))
(define xs (let lp ((i 0) (x %(n)d) (acc '())) (if (= i 300) acc (lp (+ i 1) (lcg x) (cons (modulo x 1000) acc)))))
(define s (sort xs <))
(write (list (car s) (list-ref s 150) (apply max s)))""",
    "bits": """(import (scheme base) (scheme write) (srfi 151))
(write (list (bitwise-and %(n)d 255) (arithmetic-shift %(n)d 40) (bit-count (expt 2 %(n)d)) (bitwise-xor (- (expt 2 70)) %(n)d)))""",
    "strings": """(import (scheme base) (scheme write) (scheme char) (chibi string))
(define s (make-string %(n)d #\\a))
(write (string-length (string-append s "xyz")))
(write (string-upcase "hello-%(tag)s"))
(write (string-split "a,b,,c" #\\,))
(write (call-with-output-string (lambda (o) (write '(1 "two" #\\3) o))))""",
    "json": """(import (scheme base) (scheme write) (chibi json))
(write (string->json "{\\"a\\": [1, 2, {\\"b\\": %(n)d}], \\"c\\": \\"x\\"}"))
(write (json->string (vector 1 2 %(n)d)))""",
    "green": """(import (scheme base) (scheme write) (srfi 18))
(define m (make-mutex))
(define c 0)
(define (w) (do ((i 0 (+ i 1))) ((= i %(n)d)) (mutex-lock! m) (set! c (+ c 1)) (mutex-unlock! m)))
(define ts (list (make-thread w) (make-thread w) (make-thread w)))
(for-each thread-start! ts)
(for-each thread-join! ts)
(write c)""",
    "gc": """(import (scheme base) (scheme write))
(define (churn n acc) (if (= n 0) (length acc) (churn (- n 1) (if (= 0 (modulo n 100)) '() (cons (make-vector 20 n) acc)))))
(write (churn %(big)d '()))
(write (vector-length (make-vector 100000 0)))""",
    "time": """(import (scheme base) (scheme write) (scheme time))
(write (< 0 (current-jiffy)))
(write (exact? (jiffies-per-second)))
(write (> (current-second) 1000000000))""",
    "bytevec": """(import (scheme base) (scheme write) (scheme bytevector))
(define b (make-bytevector 16 0))
(bytevector-u32-set! b 4 %(n)d (endianness little))
(write (list (bytevector-u8-ref b 4) (bytevector-u16-ref b 4 (endianness big)) (utf8->string (string->utf8 "h%(tag)s"))))""",
    "error": """(import (scheme base) (scheme write))
(write (guard (e (#t (list 'caught (error-object-message e)))) (error "boom-%(tag)s" 1 2)))
(write (guard (e ((symbol? e) e)) (raise 'sym-%(tag)s)))
(write (call/cc (lambda (k) (dynamic-wind (lambda () #f) (lambda () (k %(n)d)) (lambda () #f)))))""",
    "weak": """(import (scheme base) (scheme write) (chibi weak))
(define k (list %(n)d))
(define e (make-ephemeron k (list 'v %(n)d)))
(write (list (ephemeron-broken? e) (ephemeron-key e) (ephemeron-value e)))""",
}

WORK.update({
    # C libraries that register their own types when loaded (type tags are per context and depend on what the context
    # registered before)
    "random": """(import (scheme base) (scheme write) (srfi 27))
(write (let ((r (random-integer %(n)d))) (and (exact? r) (< -1 r %(n)d))))
(write (random-source? default-random-source))
(define rs (make-random-source))
(write (let ((r ((random-source-make-integers rs) 100))) (< -1 r 100)))
(write (let ((x (random-real))) (< 0.0 x 1.0)))""",
    "uvectors": """(import (scheme base) (scheme write) (srfi 160 base))
(define v (make-u8vector 4 %(n)d))
(u8vector-set! v 1 7)
(write (list (u8vector? v) (u8vector-ref v 0) (u8vector-ref v 1) (u8vector-length v) (f64vector-ref (f64vector 1.5 2.5) 1)))""",
    "md5": """(import (scheme base) (scheme write) (chibi crypto md5) (chibi crypto sha2))
(write (md5 "hello-%(tag)s"))
(write (string-length (sha-256 "abc")))""",
    "charset": """(import (scheme base) (scheme write) (chibi char-set) (chibi iset))
(write (char-set-contains? (char-set #\\a #\\b) #\\a))
(write (iset->list (iset-union (iset 1 2 %(n)d) (iset 2 3))))""",
    "filesys": """(import (scheme base) (scheme write) (chibi filesystem) (chibi time))
(write (file-exists? "/"))
(write (file-directory? "/"))
(write (> (current-seconds) 1000000000))""",
})

MUTATE = {
    "redefine": """(import (scheme base) (scheme write))
(define (car x) 'hijacked-car-%(tag)s)
(define (list . args) 'hijacked-%(tag)s)
(write (car '(1 2)))
(write (list 1 2))""",
    "globals": """(import (scheme base) (scheme write))
(define leak-var '%(tag)s)
(define leak-%(tag)s %(n)d)
(define-syntax leak-macro (syntax-rules () ((_ x) (quote (leaked x)))))
(write (leak-macro leak-var))""",
    "constants": """(import (scheme base) (scheme write))
(define (konst) '(1 2 3))
(define (kstr) "constant")
(guard (e (#t (write 'immutable))) (set-car! (konst) '%(tag)s) (write (konst)))
(guard (e (#t (write 'immutable))) (string-set! (kstr) 0 #\\X) (write (kstr)))""",
    "types": """(import (scheme base) (scheme write))
(define-record-type a-%(tag)s (mk-a) a?)
(define-record-type b-%(tag)s (mk-b) b?)
(define-record-type c-%(tag)s (mk-c) c?)
(write (list (a? (mk-a)) (b? (mk-a))))""",
    "params": """(import (scheme base) (scheme write))
(define saved (current-output-port))
(define sp (open-output-string))
(current-output-port sp)
(write 'hidden-%(tag)s)
(current-output-port saved)
(write (get-output-string sp))""",
    "features": """(import (scheme base) (scheme write) (chibi ast))
(define syms (let lp ((i 0) (acc '())) (if (= i 2000) acc (lp (+ i 1) (cons (string->symbol (string-append "flood-%(tag)s-" (number->string i))) acc)))))
(write (length syms))""",
}

PROBE = """(import (scheme base) (scheme write) (scheme eval) (scheme repl))
(write (car '(1 2)))
(write (list 1 2))
(write (map (lambda (n) (guard (e (#t 'unbound)) (eval n (interaction-environment)))) '(leak-var leak-macro syms h p saved)))
(define (konst) '(1 2 3))
(write (konst))
(define-record-type probe-type (mk-probe a) probe? (a probe-a))
(write (mk-probe 1))
(write (eq? 'sym-x-3 (string->symbol "sym-x-3")))
(write (length (features)))
"""


def instantiate(name, table, ch):
    text = table[name] % {"n": 5 + ch.n(60), "tag": ch.pick(["x", "y", "z"]), "big": ch.pick([2000, 20000, 60000])}
    return text


TYPE_LIBS = ["random", "uvectors", "hash", "green", "weak", "md5", "charset", "filesys", "json", "time", "records"]
PREFIXES = ["records", "hash", "uvectors", "green", "json", "weak"]


def gen_same_lib_script(ch, max_threads):
    """several contexts use the same C-backed library after different load histories (so per-context type tags differ),
    one after the other in one thread and / or side by side in several; the first context uses it again afterwards"""
    lib = ch.pick(TYPE_LIBS)
    nthreads = 1 + ch.n(min(4, max_threads))
    threads = []
    for t in range(nthreads):
        ops = []
        nctx = 2 + ch.n(2)
        for k in range(nctx):
            ops.append(("C", k))
            for _ in range(ch.n(3) if k > 0 else 0):
                pre = ch.pick(PREFIXES)
                ops.append(("R", k, "work:" + pre, instantiate(pre, WORK, ch)))
            ops.append(("R", k, "work:" + lib, instantiate(lib, WORK, ch)))
        for k in range(nctx):
            ops.append(("R", k, "work:" + lib, instantiate(lib, WORK, ch)))
            if ch.p(0.5):
                ops.append(("D", k))
        threads.append((ch.pick([0, 0, 100, 1000]), ops))
    return threads, set(["same-lib", "lib:" + lib, "probe-beside-mutated-context"])


def gen_script(ch, max_threads=16):
    """-> list of threads: (delay_us, [ops]); op = ('C',k) | ('R',k,label,text) | ('G',k) | ('D',k)"""
    shape = ch.pick(["parallel", "parallel", "parallel", "isolation", "mixed", "same-lib", "same-lib"])
    if shape == "same-lib":
        return gen_same_lib_script(ch, max_threads)
    nthreads = 1 if shape == "isolation" else 2 + ch.n(max_threads - 1)
    threads = []
    tags = set([shape])
    for t in range(nthreads):
        delay = ch.pick([0, 0, 50, 500, 3000])
        ops = []
        alive = set()
        mutated = set()
        nops = 3 + ch.n(5 if shape == "parallel" else 11)
        for _ in range(nops):
            kind = ch.pick(["create", "run", "run", "run", "gc", "destroy"])
            if kind == "create" or not alive:
                k = ch.n(4)
                ops.append(("C", k))
                alive.add(k)
                mutated.discard(k)
                if not (kind == "run"):
                    continue
            k = ch.pick(sorted(alive))
            if kind == "run":
                what = ch.pick(["work", "work", "mutate", "probe"]) if shape != "parallel" else ch.pick(["work", "work", "work", "mutate", "probe"])
                if what == "work":
                    name = ch.pick(sorted(WORK))
                    ops.append(("R", k, "work:" + name, instantiate(name, WORK, ch)))
                    tags.add("lib:" + name)
                elif what == "mutate":
                    name = ch.pick(sorted(MUTATE))
                    ops.append(("R", k, "mutate:" + name, instantiate(name, MUTATE, ch)))
                    mutated.add(k)
                else:
                    ops.append(("R", k, "probe", PROBE))
                    if any(m != k for m in mutated):
                        tags.add("probe-beside-mutated-context")
            elif kind == "gc":
                ops.append(("G", k))
            elif kind == "destroy":
                ops.append(("D", k))
                alive.discard(k)
                if mutated - set([k]):
                    pass
        threads.append((delay, ops))
    return threads, tags


def script_bytes(threads):
    out = b"THREADS %d\n" % len(threads)
    for delay, ops in threads:
        out += b"THREAD %d %d\n" % (delay, len(ops))
        for op in ops:
            if op[0] == "R":
                text = op[3].encode()
                out += b"R %d %d\n" % (op[1], len(text)) + text + b"\n"
            else:
                out += b"%s %d\n" % (op[0].encode(), op[1])
    return out


def run_script(threads, variant, timeout=600):
    d = B.build(variant)
    fd, path = tempfile.mkstemp(prefix="c13-", dir="/var/tmp")
    try:
        os.write(fd, script_bytes(threads))
        os.close(fd)
        env = B.run_env(d)
        env["TSAN_OPTIONS"] = "halt_on_error=0:report_signal_unsafe=0:second_deadlock_stack=1"
        try:
            r = subprocess.run([os.path.join(d, "vthreads"), path], capture_output=True, env=env, timeout=timeout)
        except subprocess.TimeoutExpired:
            return None
        return r
    finally:
        try:
            os.unlink(path)
        except OSError:
            pass


def parse_outputs(stdout):
    """-> {(thread, opindex): text} or None"""
    out = {}
    data = stdout
    pos = 0
    while True:
        m = re.compile(rb"#!OUT (\d+) (\d+) (\d+)\n").match(data, pos)
        if not m:
            break
        n = int(m.group(3))
        start = m.end()
        out[(int(m.group(1)), int(m.group(2)))] = data[start:start + n].decode(errors="replace")
        pos = start + n + 1
    if not data[pos:].startswith(b"#!DONE"):
        return None
    return out


_BASE = {}


def context_sequences(threads):
    """per (thread, context incarnation): list of (opindex, text)"""
    seqs = []
    for t, (delay, ops) in enumerate(threads):
        cur = {}
        for i, op in enumerate(ops):
            if op[0] == "C":
                if op[1] in cur and cur[op[1]]:
                    seqs.append((t, cur[op[1]]))
                cur[op[1]] = []
            elif op[0] == "R":
                cur.setdefault(op[1], []).append((i, op[3]))
            elif op[0] == "D":
                if cur.get(op[1]):
                    seqs.append((t, cur[op[1]]))
                cur[op[1]] = []
        for k, s in cur.items():
            if s:
                seqs.append((t, s))
    return seqs


def normalize(text):
    # build directories differ between variants
    text = re.sub(r"/var/tmp/chibi-verif-builds/[^/]+/", "<build>/", text)
    # printed representations of ports, syntactic closures, contexts ... carry heap addresses
    return re.sub(r"#<([A-Za-z][A-Za-z-]*) \d{6,}", r"#<\1 ADDR", text)


def baseline(texts):
    key = E.digest(list(texts))
    if key not in _BASE:
        ops = [("C", 0)] + [("R", 0, "x", t) for t in texts]
        r = run_script([(0, ops)], "plain")
        outs = parse_outputs(r.stdout) if r is not None and r.returncode == 0 else None
        if outs is None:
            _BASE[key] = None
        else:
            _BASE[key] = [normalize(outs[(0, i + 1)]) for i in range(len(texts))]
    return _BASE[key]


def tsan_reports(stderr):
    text = stderr.decode(errors="replace")
    reps = re.findall(r"WARNING: ThreadSanitizer: ([^\n]*)\n((?:.*\n){0,14})", text)
    out = []
    for kind, ctxt in reps:
        fr = re.findall(r"#\d+ (\S+) ", ctxt)
        out.append((kind.strip(), [f for f in fr if not f.startswith("__")][:4]))
    return out, text


def check_script(threads, variant):
    """-> (Found or None, status)"""
    r = run_script(threads, variant)
    desc = describe(threads)
    if r is None:
        return None, "inconclusive"
    if variant == "tsan":
        reps, text = tsan_reports(r.stderr)
        if reps:
            kind, frames = reps[0]
            return E.Found("tsan/%s/%s" % (kind.split(" (")[0], "<".join(frames[:2])), "%d ThreadSanitizer reports; first:\n%s\n%s" % (len(reps), text[:3000], desc)), "ok"
    if r.returncode != 0:
        err = r.stderr.decode(errors="replace")
        return E.Found("crash/%d" % r.returncode, "vthreads exited %d\n%s\n%s" % (r.returncode, err[:2500], desc)), "ok"
    outs = parse_outputs(r.stdout)
    if outs is None:
        return E.Found("truncated-output", "%r\n%s" % (r.stdout[-500:], desc)), "ok"
    for t, seq in context_sequences(threads):
        base = baseline([text for _, text in seq])
        if base is None:
            return None, "inconclusive"
        for (i, text), want in zip(seq, base):
            got = normalize(outs.get((t, i), "#!MISSING"))
            if got != want:
                label = threads[t][1][i][2]
                return E.Found("output-differs/%s" % label.split(":")[0],
                               "thread %d op %d (%s) printed\n%s\nalone in a fresh process the same context history prints\n%s\n%s" % (t, i, label, got[:800], want[:800], desc)), "ok"
    return None, "ok"


def describe(threads):
    L = []
    for t, (delay, ops) in enumerate(threads):
        L.append("thread %d delay=%dus: %s" % (t, delay, " ".join("%s%d%s" % (op[0], op[1], ("[" + op[2] + "]") if op[0] == "R" else "") for op in ops)))
    return "\n".join(L)


def nontrivial(threads, tags):
    running = sum(1 for d, ops in threads if any(op[0] == "R" for op in ops))
    return running >= 2 or "probe-beside-mutated-context" in tags


def shards(tier, seed, nshards, known):
    return [{"tier": tier, "seed": seed, "shard": i, "nshards": nshards, "known": known} for i in range(nshards)]


def run_shard(spec):
    res = E.ShardResult()
    quick = spec["tier"] != "thorough"
    rng = random.Random(E.subseed(spec["seed"], "C13", spec["shard"]))
    variant = ["tsan", "tsan", "plain", "asan"][spec["shard"] % 4]
    # TSan runs of 16 threads are heavy: the shards themselves already run in parallel
    max_threads = 8 if quick else 16
    n = (4 if variant == "tsan" else 8) if quick else (400 if variant == "tsan" else 1500)
    for i in range(n):
        if len(res.violations) >= 2:
            break
        ch = E.RngChooser(random.Random(rng.random()))
        threads, tags = gen_script(ch, max_threads)
        found, status = check_script(threads, variant)
        if status == "inconclusive":
            res.inconclusive += 1
            continue
        nt = nontrivial(threads, tags)
        res.case({"script": E.digest(script_bytes(threads).decode(errors="replace")), "variant": variant}, nt,
                 cls=[variant, "threads:%d" % len(threads)] + sorted(tags), sample=nt and rng.random() < 0.1)
        res.extra["max_os_threads"] = max(res.extra.get("max_os_threads", 0), len(threads))
        res.extra["programs_run"] = res.extra.get("programs_run", 0) + sum(1 for d, ops in threads for op in ops if op[0] == "R")
        if found:
            case = {"threads": [[d, [list(op) for op in ops]] for d, ops in threads], "variant": variant, "repeat": 6}
            case = shrink(case, found.signature)
            res.violation(case, found.signature, found.detail)
    return res


def shrink(case, signature):
    """greedy removal of threads and operations while the same signature still shows (<= 2 tries per candidate)"""
    def fails(c):
        threads = [(d, [tuple(op) for op in ops]) for d, ops in c["threads"]]
        for _ in range(1):
            f, st_ = check_script(threads, c["variant"])
            if f and f.signature == signature:
                return True
        return False
    budget = 10
    changed = True
    while changed and budget > 0:
        changed = False
        for i in range(len(case["threads"]) - 1, -1, -1):
            if len(case["threads"]) <= 1 or budget <= 0:
                break
            cand = dict(case, threads=case["threads"][:i] + case["threads"][i + 1:])
            budget -= 1
            if fails(cand):
                case = cand
                changed = True
    return case


def replay(case):
    threads = [(d, [tuple(op) for op in ops]) for d, ops in case["threads"]]
    for _ in range(case.get("repeat", 1)):
        f, st_ = check_script(threads, case["variant"])
        if f:
            return {"signature": f.signature, "detail": f.detail, "case": case}
    return None
