"""C19 -- codec libraries invert each other and are total on hostile input.

base64, quoted-printable, URI escaping, JSON, UTF-8 and the (scheme bytevector) / (srfi 160)
numeric accessors: decode(encode(x)) = x, the encoder output is accepted by Python's decoder
for the same format and decodes to x, accessor set-then-ref returns the value and the bytes
equal struct.pack, out-of-range offsets raise, and decoders fed arbitrary / mutated bytes
return a value or raise (ASan build with the poisoned heap: no crash, no timeout).
"""
import base64
import json
import os
import quopri
import random
import re
import struct
import urllib.parse

from .. import engine as E
from ..worker import Driver

VARIANTS = ["asan"]
IMPORTS = ["(scheme base)", "(scheme write)", "(scheme char)", "(chibi base64)", "(chibi quoted-printable)", "(chibi uri)", "(chibi json)",
           "(prefix (scheme bytevector) bv:)", "(srfi 160 base)", "(chibi csv)"]
RULE = ("case = (codec, input): byte strings of length 0-4096 (every length mod 3/4, all byte values, structured edge cases) for base64 "
        "/ quoted-printable / uri; JSON values of depth <= 6 with every escape class, astral characters and numbers; accessor "
        "(width, signedness, endianness, offset in -1..len+1, value at the type limits); hostile: random bytes and mutated valid "
        "encodings for every decoder; CSV: 1-4 rows of 1-4 string fields over separators, quotes, CR / LF and non-ASCII, written by "
        "csv-write and by python's csv module, read by csv->list and by python; non-trivial iff the input length is not a multiple of the codec's block size, or contains a "
        "byte that must be escaped, or (hostile) the decoder took an error path, or (accessor) the offset is at a boundary; "
        "distinct by (codec, input digest)")
ASSUMPTIONS = ["Python's base64 / quopri / urllib / json / struct / csv modules are the reference codecs",
               "a CSV row consisting of one empty field is not generated (it is written as an empty line, which readers skip)",
               "JSON integers are generated below 2^53 unless testing the big-integer class explicitly"]

PRELUDE = r"""
(define (gen-bytes n seed) (let ((b (make-bytevector n 0))) (let lp ((i 0) (x seed)) (if (= i n) b (begin (bytevector-u8-set! b i (modulo (quotient x 7) 256)) (lp (+ i 1) (modulo (+ (* x 1103515245) 12345) 2147483648)))))))
(define (b64-stream-encode bv) (let ((in (open-input-bytevector bv)) (out (open-output-bytevector))) (base64-encode in out) (get-output-bytevector out)))
(define (b64-stream-decode bv) (let ((in (open-input-bytevector bv)) (out (open-output-bytevector))) (base64-decode in out) (get-output-bytevector out)))
(define (wrap-lines bv cols nl) (let ((out (open-output-bytevector)) (n (bytevector-length bv))) (let lp ((i 0)) (if (>= i n) (get-output-bytevector out) (let ((e (min n (+ i cols)))) (write-bytevector bv out i e) (if (< e n) (write-bytevector nl out)) (lp e))))))
(define (bv-sum b) (let lp ((i 0) (a 0) (x 0)) (if (= i (bytevector-length b)) (list (bytevector-length b) a x) (lp (+ i 1) (modulo (+ a (* (+ i 1) (bytevector-u8-ref b i))) 1000000007) (+ x (bytevector-u8-ref b i))))))
(define (bvl b) (let lp ((i (- (bytevector-length b) 1)) (acc '())) (if (< i 0) acc (lp (- i 1) (cons (bytevector-u8-ref b i) acc)))))
(define (cps s) (map char->integer (string->list s)))
(define (csv-text rows) (let ((out (open-output-string))) ((csv-write) rows out) (get-output-string out)))
(define (csv-parse-string s) (csv->list (csv-read->list) (open-input-string s)))
(define (rows->cps rows) (map (lambda (r) (map cps r)) rows))
(define (out id x) (write id) (write-string " ") (write x) (newline))
(define-syntax try
  (syntax-rules () ((_ id expr) (out id (guard (e (#t (list 'error))) expr)))))
(define (jcanon x)
  (cond ((string? x) (list 's (cps x)))
        ((symbol? x) (list 'y (cps (symbol->string x))))
        ((and (number? x) (exact? x)) (list 'n x))
        ((number? x) (if (and (= x x) (< (abs x) 1e18) (= x (round x))) (list 'n (exact x)) (list 'f (if (= x x) (number->string x) 'nan))))
        ((boolean? x) (if x 't 'f))
        ((vector? x) (cons 'a (map jcanon (vector->list x))))
        ((null? x) '(o))
        ((pair? x) (cons 'o (map (lambda (kv) (if (pair? kv) (list (jcanon (car kv)) (jcanon (cdr kv))) (list 'bad))) x)))
        (else (list 'other))))
"""


def bv(b):
    return "(bytevector %s)" % " ".join(str(x) for x in b)


def sstr(s):
    return "(string %s)" % " ".join("(integer->char %d)" % ord(c) for c in s)


def rand_bytes(rng, maxlen=300):
    n = rng.choice([0, 1, 2, 3, 4, 5, 57, 58, 75, 76, 77, rng.randrange(0, maxlen), rng.randrange(0, maxlen)])
    mode = rng.randrange(4)
    if mode == 0:
        return bytes(rng.randrange(256) for _ in range(n))
    if mode == 1:
        return bytes(rng.choice(b"abc =?\r\n\t.-_~%+/0129ZAz") for _ in range(n))
    if mode == 2:
        return bytes(rng.choice([0, 255, 61, 10, 13, 32, 9, 127, 128]) for _ in range(n))
    return bytes([rng.randrange(256)]) * n


def rand_text(rng, maxlen=40, bmp_only=False, latin1=False):
    pools = ["abc XYZ019", " =?&/%+#:;@[]{}|\\^~`\"'<>", "éü ÿ", "λ世€�", "\U0001F600\U00010000", "\n\r\t"]
    if latin1:
        pools = pools[:3] + pools[5:]
    elif bmp_only:
        pools = pools[:4] + pools[5:]
    n = rng.randrange(0, maxlen)
    return "".join(rng.choice(rng.choice(pools)) for _ in range(n))


def mutate(rng, b):
    b = bytearray(b)
    for _ in range(rng.randrange(1, 4)):
        k = rng.randrange(4)
        if k == 0 and b:
            b[rng.randrange(len(b))] = rng.randrange(256)
        elif k == 1 and b:
            del b[rng.randrange(len(b))]
        elif k == 2:
            b.insert(rng.randrange(len(b) + 1), rng.choice(b"=%\\\"{}[],:\x00\xff\n"))
        elif b:
            b = b[:rng.randrange(len(b))]
    return bytes(b)


# --------------------------------------------------------------------------- JSON

def rand_json(rng, depth):
    k = rng.randrange(8) if depth > 0 else rng.randrange(6)
    if k == 0:
        return rng.choice([0, 1, -1, 42, 2 ** 31, -2 ** 31 - 1, 2 ** 53 - 1, -(2 ** 53) + 1, rng.randrange(-10 ** 9, 10 ** 9)])
    if k == 1:
        return rng.choice([0.5, -1.25, 1e10, 1.5e-7, 3.141592653589793, 1e300, -2.5e-300, 123456.789])
    if k == 2:
        return rng.choice([True, False, None])
    if k in (3, 4):
        return rand_jstr(rng)
    if k == 5:
        return rng.choice([[], {}, ""])
    if k == 6:
        return [rand_json(rng, depth - 1) for _ in range(rng.randrange(0, 4))]
    return dict((rand_key(rng), rand_json(rng, depth - 1)) for _ in range(rng.randrange(0, 4)))


def rand_jstr(rng):
    pools = ["abc XYZ", "\"\\/", "\b\f\n\r\t", "\x00\x01\x1f\x7f", "\u00e9\u03bb\u4e16", "\U0001F600\U00010000\U0010FFFF", "  ",
             "\x7f\x80\u07ff\u0800\ud7ff\ue000\ufffd\uffff"]

    def one():
        if rng.random() < 0.15:
            # astral characters by surrogate pair: both halves at their limits and in between
            hi = rng.choice([0xD800, 0xDBFF, 0xD83D, rng.randrange(0xD800, 0xDC00)])
            lo = rng.choice([0xDC00, 0xDFFF, 0xDFFE, 0xDC01, rng.randrange(0xDC00, 0xE000)])
            return chr(0x10000 + ((hi - 0xD800) << 10) + (lo - 0xDC00))
        return rng.choice(rng.choice(pools))
    return "".join(one() for _ in range(rng.randrange(0, 8)))


def rand_key(rng):
    return "".join(rng.choice("abcxyz_019") for _ in range(rng.randrange(1, 6)))


def json_to_scheme(v):
    """chibi's mapping: object = alist with symbol keys, array = vector, null = 'null"""
    if v is None:
        return "'null"
    if v is True:
        return "#t"
    if v is False:
        return "#f"
    if isinstance(v, int):
        return str(v)
    if isinstance(v, float):
        return repr(v)
    if isinstance(v, str):
        return sstr(v)
    if isinstance(v, list):
        return "(vector %s)" % " ".join(json_to_scheme(x) for x in v)
    return "(list %s)" % " ".join("(cons (string->symbol \"%s\") %s)" % (k, json_to_scheme(x)) for k, x in v.items())


def jcanon_py(v):
    if v is None:
        return "(y (110 117 108 108))"
    if v is True:
        return "t"
    if v is False:
        return "f"
    if isinstance(v, int):
        return "(n %d)" % v
    if isinstance(v, float):
        if v != v:
            return "(f nan)"
        if abs(v) < 1e18 and v == round(v):
            return "(n %d)" % int(v)      # JSON does not distinguish 1e10 from 10000000000
        return "(f \"%s\")" % scheme_float_text(v)
    if isinstance(v, str):
        return "(s (%s))" % " ".join(str(ord(c)) for c in v)
    if isinstance(v, list):
        return "(a%s)" % "".join(" " + jcanon_py(x) for x in v)
    return "(o%s)" % "".join(" ((y (%s)) %s)" % (" ".join(str(ord(c)) for c in k), jcanon_py(x)) for k, x in v.items())


def scheme_float_text(v):
    r = repr(v)
    if "e" in r:
        m, e = r.split("e")
        e = int(e)
        return "%se%s%02d" % (m, "+" if e >= 0 else "-", abs(e))
    return r


# --------------------------------------------------------------------------- accessors

ACC = [  # (name stem, struct code, size, signed/kind)
    ("u16", "H", 2, "u"), ("s16", "h", 2, "s"), ("u32", "I", 4, "u"), ("s32", "i", 4, "s"), ("u64", "Q", 8, "u"), ("s64", "q", 8, "s"),
]


def limits(size, kind):
    bits = 8 * size
    if kind == "u":
        return [0, 1, 2 ** bits - 1, 2 ** (bits - 1), 255, 256]
    return [0, 1, -1, 2 ** (bits - 1) - 1, -2 ** (bits - 1), 127, -128]


class Batch(object):
    def __init__(self):
        self.lines = []
        self.checks = []     # (case, fn(outputs dict) -> None or (signature, detail))

    def add(self, exprs, case, judge):
        case["exprs"] = list(exprs)
        ids = []
        for e in exprs:
            i = len(self.lines)
            self.lines.append("(try %d %s)" % (i, e))
            ids.append(i)
        self.checks.append((case, ids, judge))


def parse_bvl(s):
    m = re.match(r"\(([0-9 ]*)\)$", s.strip())
    return bytes(int(x) for x in m.group(1).split()) if m else None


def parse_cps(s):
    m = re.match(r"\(([0-9 ]*)\)$", s.strip())
    return "".join(chr(int(x)) for x in m.group(1).split()) if m else None


def gen_bytes_py(n, seed):
    out = bytearray()
    x = seed
    for _ in range(n):
        out.append((x // 7) % 256)
        x = (x * 1103515245 + 12345) % 2147483648
    return bytes(out)


def bv_sum_py(b):
    a = 0
    for i, v in enumerate(b):
        a = (a + (i + 1) * v) % 1000000007
    return "(%d %d %d)" % (len(b), a, sum(b))


def b64stream_exprs(case):
    x = "(gen-bytes %d %d)" % (case["n"], case["seed"])
    enc = "(base64-encode-bytevector %s)" % x
    src = enc if not case["cols"] else "(wrap-lines %s %d (bytevector %s))" % (enc, case["cols"], case["nl"])
    return ["(bv-sum (b64-stream-encode %s))" % x, "(bv-sum (b64-stream-decode %s))" % src, "(bv-sum (base64-decode-bytevector %s))" % src]


def b64stream_judge(case):
    data = gen_bytes_py(case["n"], case["seed"])

    def judge(o):
        if o[0].strip() != bv_sum_py(base64.b64encode(data)):
            return ("base64-stream/encode-differs-from-python", "port-to-port base64-encode of %d bytes: (length checksum sum) = %s, python %s" % (len(data), o[0][:80], bv_sum_py(base64.b64encode(data))))
        if o[1].strip() != bv_sum_py(data):
            return ("base64-stream/decode-roundtrip", "port-to-port base64-decode of the %s encoding of %d bytes gives (length checksum sum) = %s, expected %s"
                    % (("%d-column wrapped" % case["cols"]) if case["cols"] else "unwrapped", len(data), o[1][:80], bv_sum_py(data)))
        if o[2].strip() != bv_sum_py(data):
            return ("base64/decode-wrapped", "base64-decode-bytevector of the wrapped text gives %s, expected %s" % (o[2][:80], bv_sum_py(data)))
    return judge


def range_expr(case):
    fn, data, start, end = case["fn"], case["data"], case["start"], case["end"]
    tail = " %d" % start + ("" if end is None else " %d" % end)
    if fn == "utf8->string":
        return "(cps (utf8->string %s%s))" % (bv(bytes(data)), tail)
    if fn == "string->utf8":
        return "(bvl (string->utf8 %s%s))" % (sstr(bytes(data).decode()), tail)
    if fn == "bytevector-copy":
        return "(bvl (bytevector-copy %s%s))" % (bv(bytes(data)), tail)
    return "(let ((to (make-bytevector %d 33))) (bytevector-copy! to %d %s%s) (bvl to))" % (case["tolen"], case["at"], bv(bytes(data)), tail)


def range_judge(case):
    fn, data, start, end = case["fn"], bytes(case["data"]), case["start"], case["end"]
    e = len(data) if end is None else end
    valid = 0 <= start <= e <= len(data)
    if fn == "bytevector-copy!":
        valid = valid and 0 <= case["at"] and case["at"] + (e - start) <= case["tolen"]

    def judge(o):
        got = o[0].strip()
        if not valid:
            # R7RS: "it is an error" - raising is not required (bytevector-copy! truncates), but whatever is returned
            # may only contain bytes of the argument inside its bounds: anything else was read from outside the object
            if got == "(error)":
                return None
            lo, hi = max(0, min(start, len(data))), max(0, min(e, len(data)))
            clamped = data[lo:hi] if lo <= hi else b""
            if fn == "bytevector-copy!":
                r = parse_bvl(got)
                if r is None or len(r) != case["tolen"] or any(x != 33 and x not in data for x in r):
                    return ("range/out-of-range-result-exposes-foreign-bytes", "%s gave %s for data %r start %d end %r into %d bytes at %d" % (fn, got[:120], data, start, end, case["tolen"], case["at"]))
                return None
            r = parse_cps(got).encode() if fn == "utf8->string" and parse_cps(got) is not None else parse_bvl(got)
            if r is None or r != clamped:
                return ("range/out-of-range-result-exposes-foreign-bytes", "%s returned %s for data %r (length %d) start %d end %r: neither an error nor the part inside the bounds" % (fn, got[:120], data, len(data), start, end))
            return None
        want = data[start:e]
        if fn == "utf8->string":
            ok = parse_cps(got) == want.decode()
        elif fn == "bytevector-copy!":
            to = bytearray([33] * case["tolen"])
            to[case["at"]:case["at"] + len(want)] = want
            ok = parse_bvl(got) == bytes(to)
        else:
            ok = parse_bvl(got) == want
        if not ok:
            return ("range/wrong-result", "%s on %r start %d end %r gave %s, expected %r" % (fn, data, start, end, got[:120], want))
    return judge


def parse_rows(s):
    """((( 97 98) ()) ...) -> [["ab", ""], ...]; None if the text is not of that shape"""
    toks = re.findall(r"[()]|\d+", s)
    if "".join(toks) != re.sub(r"\s+", "", s):
        return None
    pos = [0]

    def rd():
        t = toks[pos[0]]
        pos[0] += 1
        if t == "(":
            out = []
            while toks[pos[0]] != ")":
                out.append(rd())
            pos[0] += 1
            return out
        return int(t)
    try:
        v = rd()
    except IndexError:
        return None
    if pos[0] != len(toks) or not isinstance(v, list):
        return None
    try:
        return [["".join(chr(c) for c in f) for f in r] for r in v]
    except TypeError:
        return None


def py_csv_text(rows, sep, quote_all):
    import csv
    import io
    buf = io.StringIO(newline="")
    if any("\r" in f or "\n" in f for r in rows for f in r):
        quote_all = True      # python's minimal quoting leaves a CR bare when the line terminator is LF alone
    csv.writer(buf, lineterminator=sep, quoting=csv.QUOTE_ALL if quote_all else csv.QUOTE_MINIMAL).writerows(rows)
    return buf.getvalue()


def csv_exprs(case):
    rows = "(list %s)" % " ".join("(list %s)" % " ".join(sstr(f) for f in r) for r in case["rows"])
    pytext = py_csv_text(case["rows"], case["pysep"], case["quote_all"])
    return ["(cps (csv-text %s))" % rows, "(rows->cps (csv-parse-string (csv-text %s)))" % rows, "(rows->cps (csv-parse-string %s))" % sstr(pytext)]


def csv_judge(case):
    rows = case["rows"]

    def judge(o):
        import csv
        import io
        text = parse_cps(o[0])
        if text is None:
            return ("csv/write-error", "csv-write raised for %r" % (rows,))
        try:
            py = list(csv.reader(io.StringIO(text, newline=""), strict=True))
        except Exception as ex:
            return ("csv/writer-emits-invalid-csv", "csv-write(%r) = %r is rejected by python: %s" % (rows, text, ex))
        if py != rows:
            return ("csv/python-reads-differently", "python reads %r as %r, expected %r" % (text, py, rows))
        if parse_rows(o[1]) != rows:
            return ("csv/roundtrip", "csv->list(csv-write(%r)) = %s" % (rows, o[1][:300]))
        if parse_rows(o[2]) != rows:
            return ("csv/decode", "csv->list(%r) = %s, expected %r" % (py_csv_text(rows, case["pysep"], case["quote_all"]), o[2][:300], rows))
    return judge


EXCL = [0]


def gen_cases(rng, n, b, known=()):
    for _ in range(n):
        kind = rng.choice(["b64", "b64", "b64s", "qp", "qps", "uri", "uri", "json", "json", "json-text", "acc", "acc", "acc-oob", "u160", "hostile", "hostile", "utf8", "range", "range", "b64stream", "csv", "csv"])
        if kind == "b64":
            x = rand_bytes(rng)
            case = {"codec": "base64-bytevector", "input": list(x)}

            def judge(o, x=x):
                enc, dec = parse_bvl(o[0]), parse_bvl(o[1])
                if enc != base64.b64encode(x):
                    return ("base64/encode-differs-from-python", "encode(%r) = %r, python %r" % (x, enc, base64.b64encode(x)))
                if dec != x:
                    return ("base64/roundtrip", "decode(encode(%r)) = %r" % (x, dec))
            b.add(["(bvl (base64-encode-bytevector %s))" % bv(x), "(bvl (base64-decode-bytevector (base64-encode-bytevector %s)))" % bv(x)], case, judge)
        elif kind == "b64s":
            s = rand_text(rng, 30, latin1=True).replace("\r", "")
            s = "".join(c for c in s if ord(c) < 128)
            case = {"codec": "base64-string", "input": s}

            def judge(o, s=s):
                enc, dec = parse_cps(o[0]), parse_cps(o[1])
                if enc != base64.b64encode(s.encode()).decode():
                    return ("base64/string-encode-differs", "encode(%r) = %r" % (s, enc))
                if dec != s:
                    return ("base64/string-roundtrip", "decode(encode(%r)) = %r" % (s, dec))
            b.add(["(cps (base64-encode-string %s))" % sstr(s), "(cps (base64-decode-string (base64-encode-string %s)))" % sstr(s)], case, judge)
        elif kind == "qp":
            x = rand_bytes(rng, 200)
            case = {"codec": "quoted-printable-bytevector", "input": list(x)}

            def judge(o, x=x):
                enc, dec = parse_bvl(o[0]), parse_bvl(o[1])
                if enc is None or dec is None:
                    return ("qp/error", "encode/decode raised for %r: %r" % (x, o))
                if any(c > 126 or (c < 32 and c not in (9, 10, 13)) for c in enc):
                    return ("qp/encoder-emits-raw-byte", "encode(%r) = %r contains a byte that must be escaped" % (x, enc))
                if max([len(l) for l in enc.split(b"\n")] + [0]) > 78:
                    return ("qp/line-too-long", "encode(%r) has a line longer than 76+2" % (x,))
                if quopri.decodestring(enc) != x:
                    return ("qp/python-decodes-differently", "python decodes %r to %r, expected %r" % (enc, quopri.decodestring(enc), x))
                if dec != x:
                    return ("qp/roundtrip", "decode(encode(%r)) = %r" % (x, dec))
            b.add(["(bvl (quoted-printable-encode-bytevector %s))" % bv(x), "(bvl (quoted-printable-decode-bytevector (quoted-printable-encode-bytevector %s)))" % bv(x)], case, judge)
        elif kind == "qps":
            s = rand_text(rng, 30)
            case = {"codec": "quoted-printable-string", "input": s}

            def judge(o, s=s):
                dec = parse_cps(o[0])
                if dec != s:
                    return ("qp/string-roundtrip", "decode(encode(%r)) = %r" % (s, dec))
            b.add(["(cps (quoted-printable-decode-string (quoted-printable-encode-string %s)))" % sstr(s)], case, judge)
        elif kind == "uri":
            s = rand_text(rng, 25)
            if "KF-C19-uri-non-ascii" in known and any(ord(ch_) > 127 for ch_ in s):
                s = "".join(ch_ for ch_ in s if ord(ch_) < 128)
                EXCL[0] += 1
            case = {"codec": "uri", "input": s}

            def judge(o, s=s):
                enc, dec = parse_cps(o[0]), parse_cps(o[1])
                if enc is None or dec is None:
                    return ("uri/error", "uri-encode/decode raised for %r" % s)
                if not re.match(r"^(?:[A-Za-z0-9._~!$&'()*+,;=:@/?-]|%[0-9A-Fa-f]{2})*$", enc):
                    return ("uri/encoder-emits-invalid-text", "uri-encode(%r) = %r is not valid percent-encoding" % (s, enc))
                try:
                    back = urllib.parse.unquote(enc, errors="strict")
                except Exception:
                    back = None
                if back != s:
                    return ("uri/python-decodes-differently", "python decodes %r to %r, expected %r" % (enc, back, s))
                if dec != s:
                    return ("uri/roundtrip", "uri-decode(uri-encode(%r)) = %r" % (s, dec))
            b.add(["(cps (uri-encode %s))" % sstr(s), "(cps (uri-decode (uri-encode %s)))" % sstr(s)], case, judge)
        elif kind == "json":
            v = rand_json(rng, rng.randrange(0, 6))
            case = {"codec": "json", "input": json.dumps(v)}

            def judge(o, v=v):
                text = parse_cps(o[0])
                if text is None:
                    return ("json/encode-error", "json->string raised for %r" % (v,))
                try:
                    back = json.loads(text)
                except Exception as ex:
                    return ("json/encoder-emits-invalid-json", "json->string(%r) = %r is rejected by python: %s" % (v, text, ex))
                if back != v or jcanon_py(back) != jcanon_py(v):
                    return ("json/python-decodes-differently", "json->string(%r) = %r decodes to %r" % (v, text, back))
                if o[1].strip() != jcanon_py(v):
                    return ("json/roundtrip", "string->json(json->string(%r)) = %s, expected %s" % (v, o[1].strip()[:300], jcanon_py(v)[:300]))
            e = json_to_scheme(v)
            b.add(["(cps (json->string %s))" % e, "(jcanon (string->json (json->string %s)))" % e], case, judge)
        elif kind == "json-text":
            v = rand_json(rng, rng.randrange(0, 5))
            text = json.dumps(v, ensure_ascii=rng.random() < 0.5, separators=rng.choice([(",", ":"), (", ", ": "), (" ,\n", " :\t")]))
            case = {"codec": "json-decode", "input": text}

            def judge(o, v=v, text=text):
                if o[0].strip() != jcanon_py(v):
                    return ("json/decode", "string->json(%r) = %s, expected %s" % (text, o[0].strip()[:300], jcanon_py(v)[:300]))
            b.add(["(jcanon (string->json %s))" % sstr(text)], case, judge)
        elif kind == "acc":
            stem, code, size, sk = rng.choice(ACC)
            endian = rng.choice(["big", "little"])
            ln = rng.choice([size, size + 1, 16])
            k = rng.choice([0, ln - size, rng.randrange(0, ln - size + 1)])
            val = rng.choice(limits(size, sk))
            case = {"codec": "bytevector-%s" % stem, "offset": k, "len": ln, "endian": endian, "value": val}

            def judge(o, code=code, endian=endian, val=val, k=k, ln=ln, size=size):
                want = bytearray(ln)
                want[k:k + size] = struct.pack((">" if endian == "big" else "<") + code, val)
                m = re.match(r"\((-?\d+) \(([0-9 ]*)\)\)$", o[0].strip())
                if not m:
                    return ("accessor/error-in-range", "in-range accessor call raised or misprinted: %r" % o[0])
                if int(m.group(1)) != val:
                    return ("accessor/ref-after-set", "ref returned %s after set of %d" % (m.group(1), val))
                if bytes(int(x) for x in m.group(2).split()) != bytes(want):
                    return ("accessor/bytes-differ-from-struct", "bytes %s, expected %r" % (m.group(2), bytes(want)))
            b.add(["(let ((b (make-bytevector %d 0))) (bv:bytevector-%s-set! b %d %d (bv:endianness %s)) (list (bv:bytevector-%s-ref b %d (bv:endianness %s)) (bvl b)))"
                   % (ln, stem, k, val, endian, stem, k, endian)], case, judge)
        elif kind == "acc-oob":
            stem, code, size, sk = rng.choice(ACC + [("ieee-double", "d", 8, "f"), ("ieee-single", "f", 4, "f")])
            ln = rng.choice([0, 1, size - 1, size, size + 3])
            k = rng.choice([-1, ln - size + 1, ln, ln + 1, ln - 1, 10 ** 6])
            if 0 <= k <= ln - size:
                k = ln - size + 1
            setp = rng.random() < 0.5
            native = rng.random() < 0.3
            case = {"codec": "bytevector-%s-oob" % stem, "offset": k, "len": ln, "set": setp, "native": native}

            def judge(o):
                if o[0].strip() != "(error)":
                    return ("accessor/out-of-range-not-rejected", "out-of-range accessor call returned %s instead of raising" % o[0].strip()[:100])
            sfx = "-native" if native else ""
            tail = "" if native else " (bv:endianness little)"
            valtxt = "1.5" if sk == "f" else "1"
            if setp:
                call = "(bv:bytevector-%s%s-set! b %d %s%s)" % (stem, sfx, k, valtxt, tail)
            else:
                call = "(bv:bytevector-%s%s-ref b %d%s)" % (stem, sfx, k, tail)
            b.add(["(let ((b (make-bytevector %d 7))) %s)" % (ln, call)], case, judge)
        elif kind == "u160":
            typ, lo, hi = rng.choice([("u16", 0, 65535), ("s32", -2 ** 31, 2 ** 31 - 1), ("u64", 0, 2 ** 64 - 1), ("u16", 1, 65534)])
            n_ = rng.randrange(0, 6)
            vals = [rng.choice([lo, hi, 0, 1, (lo + hi) // 2]) for _ in range(n_)]
            k = rng.choice([-1, 0, n_ - 1, n_, n_ + 1])
            case = {"codec": "srfi160-" + typ, "values": vals, "index": k}

            def judge(o, vals=vals, k=k):
                got = o[0].strip()
                if 0 <= k < len(vals):
                    if got != "(%d %s)" % (vals[k], "(" + " ".join(map(str, vals)) + ")"):
                        return ("srfi160/ref", "got %s for values %r index %d" % (got, vals, k))
                elif got != "(error)":
                    return ("srfi160/out-of-range-not-rejected", "index %d of %d elements returned %s" % (k, len(vals), got[:100]))
            b.add(["(let ((v (%svector %s))) (list (%svector-ref v %d) (%svector->list v)))" % (typ, " ".join(map(str, vals)), typ, k, typ)], case, judge)
        elif kind == "b64stream":
            # the port-to-port codec works in chunks (3072 bytes in, 2964 characters out): lengths around the chunk sizes,
            # decoder input also wrapped into lines of 60 / 64 / 76 columns with LF or CRLF
            n = max(0, rng.choice([0, 1, 2047, 2048, 2223, 3072, 4446, 6144, 2964, 5928, 9216]) + rng.randrange(-3, 4))
            seed = rng.randrange(1, 100000)
            cols = rng.choice([0, 60, 64, 76, 4, 57])
            nl = rng.choice(["10", "13 10"])
            case = {"codec": "base64-stream", "n": n, "seed": seed, "cols": cols, "nl": nl}
            b.add(b64stream_exprs(case), case, b64stream_judge(case))
        elif kind == "csv":
            # rows of string fields over an alphabet rich in the characters the format treats specially; a row consisting
            # of one empty field is excluded (it is written as an empty line, which every CSV reader skips)
            alpha = "ab1 ,,\"\"\n\r;\t'\u00e9\u03bb\U0001f600"
            rows = []
            for _r in range(rng.randrange(1, 5)):
                row = ["".join(rng.choice(alpha) for _c in range(rng.choice([0, 1, 2, 3, 8]))) for _f in range(rng.randrange(1, 5))]
                if row == [""]:
                    row = ["", ""]
                rows.append(row)
            case = {"codec": "csv", "rows": rows, "pysep": rng.choice(["\n", "\r\n"]), "quote_all": rng.random() < 0.3}
            b.add(csv_exprs(case), case, csv_judge(case))
        elif kind == "range":
            # optional start / end arguments of the byte-level converters: every combination around the bounds
            fn = rng.choice(["utf8->string", "string->utf8", "bytevector-copy", "bytevector-copy!"])
            n = rng.randrange(0, 7)
            data = [rng.randrange(97, 123) for _ in range(n)]
            start = rng.randrange(-1, n + 3)
            end = rng.choice([None, rng.randrange(-1, n + 4), n, n + 1, start + n if start > 0 else n + 1])
            case = {"codec": "range", "fn": fn, "data": data, "start": start, "end": end}
            if fn == "bytevector-copy!":
                case["tolen"] = rng.randrange(0, 9)
                case["at"] = rng.randrange(-1, case["tolen"] + 2)
            b.add([range_expr(case)], case, range_judge(case))
        elif kind == "utf8":
            s = rand_text(rng, 30)
            enc = s.encode("utf-8")
            a = rng.randrange(0, len(s) + 1)
            case = {"codec": "utf8", "input": s, "start": a}

            def judge(o, s=s, a=a):
                if parse_bvl(o[0]) != s[a:].encode("utf-8"):
                    return ("utf8/string->utf8", "string->utf8(%r, %d) = %s" % (s, a, o[0][:200]))
                if parse_cps(o[1]) != s:
                    return ("utf8/roundtrip", "utf8->string(string->utf8(%r)) = %s" % (s, o[1][:200]))
            b.add(["(bvl (string->utf8 %s %d))" % (sstr(s), a), "(cps (utf8->string (string->utf8 %s)))" % sstr(s)], case, judge)
        else:
            # hostile input to every decoder: value or error, never a crash / hang (judged at batch level)
            which = rng.choice(["base64-decode-bytevector", "base64-decode-string", "quoted-printable-decode-bytevector", "quoted-printable-decode-string",
                                "uri-decode", "string->json", "utf8->string", "string->json", "csv-parse-string"])
            if rng.random() < 0.5:
                raw = rand_bytes(rng, 120)
            else:
                if which.startswith("base64"):
                    valid = base64.b64encode(rand_bytes(rng, 60))
                elif which.startswith("quoted"):
                    valid = quopri.encodestring(rand_bytes(rng, 60))
                elif which == "uri-decode":
                    valid = urllib.parse.quote(rand_text(rng, 20)).encode()
                elif which == "string->json":
                    valid = json.dumps(rand_json(rng, 4)).encode()
                elif which == "csv-parse-string":
                    valid = py_csv_text([[rand_text(rng, 6) + rng.choice(["", ",", "\"", "\n"]) for _f in range(3)] for _r in range(3)], "\r\n", False).encode()
                else:
                    valid = rand_text(rng, 20).encode("utf-8")
                raw = mutate(rng, valid)
            case = {"codec": "hostile:" + which, "input": list(raw)}

            def judge(o):
                return None
            if which.endswith("bytevector") or which == "utf8->string":
                arg = bv(raw)
            else:
                arg = "(list->string (map integer->char '(%s)))" % " ".join(str(x) for x in raw)
            b.add(["(let ((r (%s %s))) (if (string? r) (string-length r) (if (bytevector? r) (bytevector-length r) 'other)))" % (which, arg)], case, judge)


def make_judge(case):
    """rebuilds the judge of a recorded case from its fields"""
    c = case["codec"]
    b = Batch()
    rec = {}

    class One(object):
        """captures the judge produced by gen_cases for exactly this case"""
    if c == "base64-bytevector":
        x = bytes(case["input"])

        def judge(o):
            enc, dec = parse_bvl(o[0]), parse_bvl(o[1])
            if enc != base64.b64encode(x):
                return ("base64/encode-differs-from-python", "encode(%r) = %r" % (x, enc))
            if dec != x:
                return ("base64/roundtrip", "decode(encode(%r)) = %r" % (x, dec))
        return judge
    if c == "base64-string":
        s_ = case["input"]

        def judge(o):
            enc, dec = parse_cps(o[0]), parse_cps(o[1])
            if enc != base64.b64encode(s_.encode()).decode():
                return ("base64/string-encode-differs", "encode(%r) = %r" % (s_, enc))
            if dec != s_:
                return ("base64/string-roundtrip", "decode(encode(%r)) = %r" % (s_, dec))
        return judge
    if c == "quoted-printable-bytevector":
        x = bytes(case["input"])

        def judge(o):
            enc, dec = parse_bvl(o[0]), parse_bvl(o[1])
            if enc is None or dec is None:
                return ("qp/error", "raised")
            if any(ch > 126 or (ch < 32 and ch not in (9, 10, 13)) for ch in enc):
                return ("qp/encoder-emits-raw-byte", "%r" % enc)
            if max([len(l) for l in enc.split(b"\n")] + [0]) > 78:
                return ("qp/line-too-long", "%r" % enc)
            if quopri.decodestring(enc) != x:
                return ("qp/python-decodes-differently", "%r" % enc)
            if dec != x:
                return ("qp/roundtrip", "%r" % dec)
        return judge
    if c == "quoted-printable-string":
        s_ = case["input"]
        return lambda o: None if parse_cps(o[0]) == s_ else ("qp/string-roundtrip", "decode(encode(%r)) = %r" % (s_, parse_cps(o[0])))
    if c == "uri":
        s_ = case["input"]

        def judge(o):
            enc, dec = parse_cps(o[0]), parse_cps(o[1])
            if enc is None or dec is None:
                return ("uri/error", "raised")
            if not re.match(r"^(?:[A-Za-z0-9._~!$&'()*+,;=:@/?-]|%[0-9A-Fa-f]{2})*$", enc):
                return ("uri/encoder-emits-invalid-text", "uri-encode(%r) = %r" % (s_, enc))
            try:
                back = urllib.parse.unquote(enc, errors="strict")
            except Exception:
                back = None
            if back != s_:
                return ("uri/python-decodes-differently", "python decodes %r to %r, expected %r" % (enc, back, s_))
            if dec != s_:
                return ("uri/roundtrip", "%r" % dec)
        return judge
    if c == "json":
        v = json.loads(case["input"])

        def judge(o):
            text = parse_cps(o[0])
            if text is None:
                return ("json/encode-error", "raised")
            try:
                back = json.loads(text)
            except Exception as ex:
                return ("json/encoder-emits-invalid-json", "%r: %s" % (text, ex))
            if back != v or jcanon_py(back) != jcanon_py(v):
                return ("json/python-decodes-differently", "%r -> %r" % (text, back))
            if o[1].strip() != jcanon_py(v):
                return ("json/roundtrip", "%s vs %s" % (o[1].strip()[:300], jcanon_py(v)[:300]))
        return judge
    if c == "json-decode":
        v = json.loads(case["input"])
        return lambda o: None if o[0].strip() == jcanon_py(v) else ("json/decode", "string->json(%r) = %s, expected %s" % (case["input"], o[0].strip()[:300], jcanon_py(v)[:300]))
    if c.endswith("-oob"):
        return lambda o: None if o[0].strip() == "(error)" else ("accessor/out-of-range-not-rejected", "returned %s" % o[0].strip()[:100])
    if c.startswith("bytevector-"):
        code = dict((a[0], a) for a in ACC)[c[len("bytevector-"):]]

        def judge(o):
            want = bytearray(case["len"])
            want[case["offset"]:case["offset"] + code[2]] = struct.pack((">" if case["endian"] == "big" else "<") + code[1], case["value"])
            m = re.match(r"\((-?\d+) \(([0-9 ]*)\)\)$", o[0].strip())
            if not m:
                return ("accessor/error-in-range", "%r" % o[0])
            if int(m.group(1)) != case["value"]:
                return ("accessor/ref-after-set", "%s" % m.group(1))
            if bytes(int(x) for x in m.group(2).split()) != bytes(want):
                return ("accessor/bytes-differ-from-struct", "%s" % m.group(2))
        return judge
    if c.startswith("srfi160-"):
        vals, k = case["values"], case["index"]

        def judge(o):
            got = o[0].strip()
            if 0 <= k < len(vals):
                if got != "(%d %s)" % (vals[k], "(" + " ".join(map(str, vals)) + ")"):
                    return ("srfi160/ref", got)
            elif got != "(error)":
                return ("srfi160/out-of-range-not-rejected", got[:100])
        return judge
    if c == "csv":
        return csv_judge(case)
    if c == "range":
        return range_judge(case)
    if c == "base64-stream":
        return b64stream_judge(case)
    if c == "utf8":
        s_, a = case["input"], case["start"]

        def judge(o):
            if parse_bvl(o[0]) != s_[a:].encode("utf-8"):
                return ("utf8/string->utf8", o[0][:200])
            if parse_cps(o[1]) != s_:
                return ("utf8/roundtrip", o[1][:200])
        return judge
    return lambda o: None


_D = None


def driver():
    global _D
    if _D is None:
        import tempfile
        f = tempfile.NamedTemporaryFile("w", suffix=".scm", delete=False, dir="/var/tmp")
        f.write(PRELUDE)
        f.close()
        try:
            _D = Driver("asan", imports=IMPORTS, prelude=f.name)
        finally:
            os.unlink(f.name)
    return _D


def nontrivial(case):
    c = case["codec"]
    if c.startswith("hostile"):
        return True
    if c == "csv":
        return any(ch in f for r in case["rows"] for f in r for ch in ",\"\n\r")
    if "input" in case and isinstance(case["input"], list):
        n = len(case["input"])
        return n % 3 != 0 or any(x in (61, 37, 0, 255, 10, 13) for x in case["input"])
    if "input" in case:
        return any(ord(ch) > 126 or ch in "\"\\% =\n" for ch in case["input"])
    return case.get("offset") in (0, case.get("len", 0) - 8, -1) or True


def run_batch(b, res, known, single=False):
    prog = "\n".join(b.lines) + "\n"
    r = driver().run(prog, cpu=60 if not single else 20, poison=1, check=1, finalgc=1)
    outs = {}
    for ln in r.body.split("\n"):
        m = re.match(r"^(\d+) (.*)$", ln)
        if m:
            outs[int(m.group(1))] = m.group(2)
    dead = r.status not in ("ok",)
    vio = []
    for case, ids, judge in b.checks:
        if any(i not in outs for i in ids):
            if dead:
                if single:
                    kind = "timeout" if r.status in ("cpu", "wall") else "crash"
                    vio.append((case, "%s/%s" % (case["codec"], kind), "decoder/encoder did not return: status=%s\n%s" % (r.status, (r.sanitizer_summary() if r.err else ""))))
                else:
                    # isolate: re-run this case alone
                    b1 = Batch()
                    rng1 = None
                    b1.lines = [re.sub(r"^\(try \d+ ", "(try %d " % k, b.lines[i]) for k, i in enumerate(ids)]
                    b1.checks = [(case, list(range(len(ids))), judge)]
                    vio += run_batch(b1, None, known, single=True)
                continue
            vio.append((case, "%s/no-output" % case["codec"], "no output for the case"))
            continue
        try:
            v = judge([outs[i] for i in ids])
        except Exception as ex:
            v = ("%s/unparsable-output" % case["codec"], "%r: %r" % (ex, [outs[i][:200] for i in ids]))
        if v:
            vio.append((case, v[0], v[1] + "\ncase=%r" % (case,)))
    if res is not None:
        if r.end and r.end.get("check_fail"):
            vio.append(({"batch": True}, "heap-check/" + r.end["msg"].split(" at ")[0], r.end["msg"]))
        for case, ids, judge in b.checks:
            res.case(case, nontrivial(case), cls=case["codec"].split(":")[0], sample=False)
    return vio


def shards(tier, seed, nshards, known):
    return [{"tier": tier, "seed": seed, "shard": i, "nshards": nshards, "known": known} for i in range(nshards)]


def run_shard(spec):
    res = E.ShardResult()
    quick = spec["tier"] != "thorough"
    rng = random.Random(E.subseed(spec["seed"], "C19", spec["shard"]))
    seen = set()
    for _ in range(30 if quick else 800):
        b = Batch()
        gen_cases(rng, 150, b, spec["known"])
        for case, sig, detail in run_batch(b, res, spec["known"]):
            if matches_known(case, sig, spec["known"]):
                res.excluded["violation_matching_known_finding"] += 1
                continue
            if sig not in seen:
                seen.add(sig)
                res.violation(case, sig, detail)
    if res.samples == [] and b.checks:
        res.samples = [c for c, _, _ in b.checks[:6]]
    res.excluded["excluded_by_known_finding"] += EXCL[0]
    if _D is not None:
        _D.close()
    return res


def matches_known(case, sig, known):
    if "KF-C19-uri-non-ascii" in known and case.get("codec") == "uri" and any(ord(c) > 127 for c in case.get("input", "")):
        return True
    return False


def matches_finding(v, f):
    case = v.get("case") or {}
    return f.get("id") == "KF-C19-uri-non-ascii" and case.get("codec") == "uri" and any(ord(c) > 127 for c in case.get("input", ""))


def replay(case):
    if "exprs" not in case:
        return None
    b = Batch()
    b.add(case["exprs"], case, make_judge(case))
    vio = run_batch(b, None, [], single=True)
    if vio:
        return {"signature": vio[0][1], "detail": vio[0][2], "case": case}
    return None
