"""C01 -- evaluating any program never corrupts memory; errors stay contained.

Call histories over every procedure exported by the R7RS-small libraries plus the VM
primitives visible in (chibi) (table read from the tree at run time), applied to typed,
boundary and ill-typed arguments from a value pool; plus generated / mutated source text
fed to read and eval; plus deep nesting.  Oracles: (1) the forked child neither dies on
a signal nor prints an ASan report (heap poisoned by the gc.c hook, so overruns inside
the Scheme heap are visible); (2) every step ends in a value or a Scheme error;
(3) containment: after the history a forced collection with the heap checker passes and
a fixed probe program prints exactly what it prints in a pristine context.
"""
import os
import random
import re
import shutil
import tempfile

from .. import engine as E
from ..worker import Driver

VARIANTS = ["asan", "plain"]
R7RS_LIBS = ["(scheme base)", "(scheme char)", "(scheme complex)", "(scheme cxr)", "(scheme eval)", "(scheme file)",
             "(scheme inexact)", "(scheme lazy)", "(scheme load)", "(scheme process-context)", "(scheme read)",
             "(scheme repl)", "(scheme time)", "(scheme write)", "(scheme case-lambda)"]
CHIBI_EXTRA = ["string-cursor-start", "string-cursor-end", "string-cursor-next", "string-cursor-prev", "string-cursor-ref",
               "string-cursor-set!", "string-cursor->index", "string-index->cursor", "string-cursor-offset", "string-cursor<?",
               "string-cursor=?", "string-size", "substring-cursor", "subbytes", "string-concatenate", "make-exception",
               "exception-kind", "exception-irritants", "exception?", "reverse!", "append2", "apply1", "length*",
               "equal?/bounded", "ratio-numerator", "ratio-denominator", "complex-real", "complex-imag", "exact-sqrt",
               "char-cmp", "string-cmp", "digit-char", "atan1", "ln", "make-uvector", "list->uvector",
               "call-with-input-string", "call-with-output-string", "flush-output", "port-open?", "port-fileno", "is-a?",
               "make-syntactic-closure", "strip-syntactic-closures", "identifier?", "identifier->symbol", "identifier=?",
               "fixnum?", "flonum?", "bignum?", "ratio?", "closure?", "opcode?", "find", "find-tail", "any", "every",
               "exact->inexact", "inexact->exact", "%number->string", "promise-done?", "promise-value", "port-fold-case?",
               "set-port-fold-case!", "set-port-line!", "pair-source", "cons-source", "print-exception",
               "open-input-file-descriptor", "open-output-file-descriptor", "%write-string", "string-cmp-ls"]
NATIVE = ["native-read", "native-write", "native-display"]
IMPORTS = R7RS_LIBS + ["(only (chibi) %s)" % " ".join(CHIBI_EXTRA),
                       "(rename (only (chibi) read write display) (read native-read) (write native-write) (display native-display))",
                       "(prefix (only (chibi ast) opcode? opcode-num-params opcode-variadic? opcode-param-type type? type-name procedure-arity procedure-variadic?) ast:)",
                       "(prefix (only (chibi modules) module-exports load-module) mod:)"]
PRELUDE = os.path.join(E.VERIF, "harness", "scm", "prelude_c01.scm")
RULE = ("case = call history (1-10 steps; each step applies a procedure from the run-time table of every R7RS-small export and "
        "the listed (chibi) VM primitives to 0..arity+2 arguments drawn from a typed pool with boundary values: -1, 0, len-1, len, "
        "len+1, fixnum extremes, bignums, non-scalar chars, cursors of other strings, circular/deep/long lists, closed ports, "
        "earlier results) or a source text fed to read/eval, or a nesting depth; non-trivial iff >= 1 step ended in a Scheme "
        "error (i.e. a guard in the implementation was exercised); distinct by (procedure, argument classes) vector")
ASSUMPTIONS = ["non-termination is not a violation of this property (CPU-budget overruns are inconclusive)",
               "procedures whose documented purpose is to change global state are not called that way (parameter objects with an argument)",
               "out-of-memory errors under the configured heap limit are excluded by the property"]

# --------------------------------------------------------------------------- value pool

POOL = {
    "fixnum": ["0", "1", "-1", "2", "3", "4", "5", "6", "7", "100", "255", "256", "65535", "-2", "1000000", "4999", "5000", "5001",
               "4611686018427387903", "-4611686018427387904", "2305843009213693951", "1152921504606846975"],
    "bignum": ["(expt 2 62)", "(expt 2 64)", "(- (expt 2 62) 0)", "(- -1 (expt 2 62))", "(expt 10 30)", "(- (expt 2 200))", "9223372036854775807"],
    "ratio": ["1/2", "-7/3", "(/ (expt 10 30) 7)"],
    "flonum": ["0.0", "-0.0", "1.5", "-2.5", "+inf.0", "-inf.0", "+nan.0", "1e308", "5e-324", "1e21", "4.5e15"],
    "complex": ["1+2i", "+i", "1.5-0.5i"],
    "char": ["#\\a", "#\\space", "#\\x0", "#\\x7f", "#\\x80", "#\\x7ff", "#\\x800", "#\\xffff", "#\\x10000", "#\\x10ffff", "#\\x3bb",
             "(integer->char 55296)", "(integer->char 1114112)", "(integer->char 2147483647)"],
    "string": ['""', '"a"', '"hello"', '(string #\\x3bb #\\a #\\x1F600 #\\x800)', '(string-copy "mutable")', "(make-string 5000 #\\a)",
               '"literal string"', '(make-string 3 #\\x10ffff)', '"scratch.txt"', '"(a b . c)"', '"12abc"', '"#e1.5e400"',
               '(string-copy "h\\x3bb;llo w\\x1F600;rld")'],
    "cursor": ['(string-cursor-start "hello")', '(string-cursor-end "hello")', "(other-cursor)", '(string-index->cursor "h\\x3bb;llo" 2)',
               '(string-cursor-end (make-string 5000 #\\a))'],
    "symbol": ["'a", "'||", "(string->symbol \"\\x3bb;\")", "'quote", "'else"],
    "list": ["'()", "'(1 2 3)", "(list 1 2 3)", "'(1 . 2)", "(circular-list 1 2 3)", "(long-list 20000)", "(deep-list 100000)",
             "'((a . 1) (b . 2))", "(list \"x\" #\\y 'z 1.5)", "(list 3 1 2)", "'(#\\a #\\b)", "(list (list 1 2) (list 3 4))", "'(1 2 . 3)"],
    "vector": ["#()", "#(1 2 3)", "(vector 1 2 3)", "(self-vector)", "(make-vector 1000 0)", "(vector #\\a #\\b)", "(vector 1.5 'a \"s\")"],
    "bytevector": ["(bytevector)", "(bytevector 1 2 3)", "#u8(1 2 3)", "(make-bytevector 100 255)", "(bytevector 206 187 240 159 152 128)",
                   "(bytevector 255 254 128)", "(bytevector 240 159)"],
    "procedure": ["car", "(lambda () 1)", "(lambda (x) x)", "(lambda (x y) x)", "(lambda args args)", "+", "list", "char-upcase",
                  "(lambda (x) (raise 'in-callback))", "(lambda (x . r) (vector x r))", "string-length", "(lambda (x y) (< x y))"],
    "cont": ["k"],
    "parameter": ["pool-param"],
    "iport": ['(open-input-string "abc def\\nline2")', "(closed-iport)", "(open-input-bytevector (bytevector 1 2 3 255))",
              '(open-input-string "")', '(open-input-string "(1 2 (3")', '(open-input-string (make-string 3000 #\\())'],
    "oport": ["(open-output-string)", "(closed-oport)", "(open-output-bytevector)"],
    "eof": ["(eof-object)"],
    "void": ["(if #f #f)"],
    "bool": ["#t", "#f"],
    "record": ["(make-vrec 1 2)"],
    "promise": ["(a-promise)", "(make-promise 5)", "(delay (car '()))"],
    "env": ["(interaction-environment)", "(scheme-report-environment 5)"],
    "exception": ["an-error-object", "an-exception"],
    "expr": ["'(+ 1 2)", "'car", "'(lambda (x) x)", "''x", "'(if)", "'(1 2)", "'(let ((x 1)) (* x 2))", "'(quote . 1)", "'(define)", "'#(1 2)",
             "'(lambda)", "'(let loop ())", "'((lambda (x) x))", "'(begin)", "'(set! undefined-var 1)", "'(cond (else))"],
}
CLASSES = sorted(POOL)
TYPE_MAP = {  # declared opcode parameter types -> pool classes
    "String": ["string"], "Integer": ["fixnum"], "Fixnum": ["fixnum"], "Number": ["fixnum", "bignum", "flonum", "ratio", "complex"],
    "Pair": ["list"], "Procedure": ["procedure"], "Vector": ["vector"], "Bytevector": ["bytevector"], "Char": ["char"],
    "Symbol": ["symbol"], "Input-Port": ["iport"], "Output-Port": ["oport"], "Port": ["iport", "oport"], "Boolean": ["bool"],
    "Environment": ["env"], "Exception": ["exception"], "Flonum": ["flonum"], "Promise": ["promise"], "union": ["list"],
}


def guess_classes(name, pos):
    """name heuristics for procedures without declared types"""
    n = name
    if n.startswith("string-cursor") or n in ("substring-cursor",):
        return [["string"], ["cursor"], ["cursor"]][min(pos, 2)]
    if n.startswith("string") or n in ("substring", "symbol->string", "read-string"):
        return [["string"], ["fixnum", "char", "string"], ["fixnum", "string"], ["fixnum"], ["fixnum"]][min(pos, 4)]
    if n.startswith("vector") or n == "subvector":
        return [["vector", "procedure"], ["fixnum", "vector"], ["fixnum", "vector"], ["fixnum"], ["fixnum"]][min(pos, 4)]
    if n.startswith("bytevector") or n in ("utf8->string", "subbytes"):
        return [["bytevector"], ["fixnum", "bytevector"], ["fixnum"], ["fixnum"], ["fixnum"]][min(pos, 4)]
    if n.startswith("char"):
        return ["char"]
    if n.startswith("list") or n in ("length", "reverse", "append", "map", "for-each", "assq", "assv", "assoc", "memq", "memv", "member",
                                     "car", "cdr", "apply", "list-tail", "list-ref", "list-copy", "list-set!") or re.match(r"c[ad]+r$", n):
        return [["list", "procedure"], ["list", "fixnum"], ["list", "fixnum"]][min(pos, 2)]
    if n.startswith("make-"):
        return [["fixnum"], ["char", "fixnum", "bool"]][min(pos, 1)]
    if n in ("eval",):
        return [["expr"], ["env"]][min(pos, 1)]
    if n.startswith("read") or n.startswith("peek") or n in ("char-ready?", "u8-ready?"):
        return [["iport", "fixnum"], ["iport"]][min(pos, 1)]
    if n.startswith("write") or n in ("display", "newline", "flush-output-port"):
        return [["list", "string", "char", "bytevector", "fixnum"], ["oport"], ["fixnum"], ["fixnum"]][min(pos, 3)]
    if n in ("exact", "inexact", "floor", "round", "truncate", "ceiling", "sqrt", "exp", "log", "sin", "cos", "tan", "atan", "expt",
             "number->string", "quotient", "remainder", "modulo", "gcd", "lcm", "abs", "square", "numerator", "denominator",
             "exact-integer-sqrt", "floor/", "truncate/", "min", "max", "+", "-", "*", "/", "=", "<", ">", "<=", ">="):
        return ["fixnum", "bignum", "flonum", "ratio", "complex"]
    return None


NEVER_WITH_ARGS = {"current-input-port", "current-output-port", "current-error-port"}
EXITS = {"exit", "emergency-exit"}
SKIP = {"vprobe"}


# --------------------------------------------------------------------------- table

def load_table(d):
    prog = "\n".join("(for-each (lambda (n) (write n) (newline)) (mod:module-exports (mod:load-module '%s)))" % l for l in R7RS_LIBS)
    r = d.run(prog, cpu=60)
    names = []
    for ln in r.body.split("\n"):
        ln = ln.strip()
        if ln and not ln.startswith("#!") and " " not in ln and ln not in names:
            names.append(ln)
    names += [n for n in CHIBI_EXTRA + NATIVE if n not in names]
    prog = "\n".join("(vdesc '%s %s)" % (n, n) for n in names)
    r = d.run(prog, cpu=60)
    table = {}
    for ln in r.body.split("\n"):
        m = re.match(r"\((op|proc) (\S+) (-?\d+) (#t|#f) \((.*)\)\)$", ln.strip())
        if m:
            types = re.findall(r'"([^"]*)"|(#f)', m.group(5))
            table[m.group(2)] = {"kind": m.group(1), "arity": int(m.group(3)), "variadic": m.group(4) == "#t",
                                 "types": [t[0] or None for t in types]}
    return table


# --------------------------------------------------------------------------- generation

def gen_arg(rng, name, pos, info, nres):
    typed = None
    if pos < len(info["types"]) and info["types"][pos] in TYPE_MAP:
        typed = TYPE_MAP[info["types"][pos]]
    if typed is None or info["types"][pos] == "Object":
        typed = guess_classes(name, pos)
    r = rng.random()
    if nres and r < 0.15:
        return ("result", "(vres %d)" % rng.randrange(nres))
    if typed and r < 0.75:
        cls = rng.choice(typed)
    else:
        cls = rng.choice(CLASSES)
    return (cls, rng.choice(POOL[cls]))


WRITERS = {"write", "display", "write-shared", "write-simple", "print-exception", "native-write", "native-display", "newline"}


def excluded_by_finding(step, known):
    """KF-C01-printer: printing an object whose type uses the generic object printer (records, exceptions)
    to something that is not an open output port corrupts the VM stack"""
    if "KF-C01-printer" in known and step["proc"] in WRITERS:
        return any(a[0] in ("record", "exception", "result", "env", "promise", "cont", "parameter") for a in step["args"][:1]) and len(step["args"]) >= 2
    return False


def gen_step(rng, table, names, nres):
    name = rng.choice(names)
    info = table[name]
    a = info["arity"]
    r = rng.random()
    if name in NEVER_WITH_ARGS:
        n = 0
    elif r < 0.6:
        n = a + (rng.randrange(0, 3) if info["variadic"] and rng.random() < 0.5 else 0)
    elif r < 0.8:
        n = max(0, a - 1)
    else:
        n = a + rng.randrange(1, 3)
    args = [gen_arg(rng, name, i, info, nres) for i in range(n)]
    return {"proc": name, "args": [[c, e] for c, e in args]}


TEXT_ATOMS = ["(", ")", "(", ")", "[", "]", "'", "`", ",", ",@", "#(", "#u8(", "\"", "\\", "|", "#\\", "#\\x", "#;", "#|", "|#", "#0=", "#0#",
              "#1=", "#1#", "#t", "#f", "#true", "#e", "#i", "#x", "#b", "#d", "1", "0", "-", "+", ".", "/", "e", "i", "@", "1e400", "1/0", "#!eof",
              "a", "lambda", "define", "let", "if", "quote", "x", " ", "\n", ";", "\x80", "\u03bb", "\U0001F600", "#!fold-case", "#\\x110000",
              "\\x41;", "\\x", "99999999999999999999", ".5", "-.5e-5", "+inf.0", "+nan.0", "nan", "#u8", "#f32(", "1.", "#e1.2", "#x-ff/a"]


def gen_label_text(rng):
    """datum labels: ascending definitions with gaps (the reader's label table grows at 23, 47, ...) and references to
    defined, undefined, huge and overflowing label numbers"""
    items = []
    lab = rng.choice([0, 0, 1, 7, 15])
    labs = []
    if rng.random() < 0.3:
        # a first label just below the initial table size (24) followed by the largest jumps around the reader's tolerance
        l0 = rng.randrange(12, 24)
        l1 = l0 + rng.randrange(15, 36)
        l2 = l1 + rng.randrange(15, 36)
        refs = [rng.choice([l0, l1, l2, l1 + 1, 47, 48, 95, 96])]
        return "(#%d=a #%d=(b) #%d=c #%d# #%d#)" % (l0, l1, l2, refs[0], l0)
    for _ in range(rng.choice([1, 2, 3, 5, 8])):
        labs.append(lab)
        items.append("#%d=%s" % (lab, rng.choice(["a", "(b)", "\"s\"", "#(1 2)", "(x . y)"])))
        lab += rng.choice([1, 1, 2, 8, 15, 16, 16, 17, 24, 31, 32, 33])
    for _ in range(rng.choice([1, 2, 4])):
        ref = rng.choice(labs + [labs[-1] + 1, labs[-1] + 17, 22, 23, 24, 46, 47, 48, 95, 96, 500, 100000, 4294967295, 4294967296 + labs[0], 10 ** 20])
        items.insert(rng.randrange(len(items) + 1), "#%d#" % ref)
    return "(" + " ".join(items) + ")"


def gen_boundary_string_text(rng):
    """a string / |symbol| literal whose multi-byte character or \\x...; escape starts just before a power-of-two byte
    offset (the reader collects literals in a 128-byte buffer that doubles)"""
    base = rng.choice([128, 128, 256, 256, 512, 1024, 4096])
    pre = base - rng.randrange(0, 7)
    esc = rng.choice(["\\x20ac;", "\\x1F600;", "\\x3bb;", "\\x10ffff;", "\u20ac", "\U0001F600", "\\n", "\\x41;"])
    q = rng.choice(['"', '"', "|"])
    body = "a" * pre + esc * rng.choice([1, 1, 2, 3]) + "b" * rng.randrange(0, 4)
    return q + body + q


def gen_text(rng):
    r0 = rng.random()
    if r0 < 0.2:
        return gen_label_text(rng)
    if r0 < 0.35:
        return gen_boundary_string_text(rng)
    n = rng.choice([1, 2, 3, 5, 8, 12, 20, 40])
    s = "".join(rng.choice(TEXT_ATOMS) for _ in range(n))
    if rng.random() < 0.3:
        # balance parentheses so that the datum is complete
        depth = 0
        out = []
        for ch in s:
            if ch == "(":
                depth += 1
            elif ch == ")":
                if depth == 0:
                    continue
                depth -= 1
            out.append(ch)
        s = "".join(out) + ")" * depth
    return s


DEEP_CONSUMERS = ["equal?", "eqv?", "member", "assoc", "memv", "assv", "write", "display", "write-shared", "write-simple", "length", "list-copy",
                  "append", "reverse", "list->vector", "vector->list", "apply", "map", "for-each", "vector-map", "list?", "length*", "equal?/bounded",
                  "list->string", "vector-fill!", "hash", "string-append", "max", "+", "vector-for-each", "list-tail", "cons-source", "strip-syntactic-closures"]
DEEP = ["(deep-car 1000000)", "(deep-car 150000)", "(deep-vec 400000)", "(deep-list 1000000)", "(long-list 1000000)"]


def gen_case(rng, table, names, known=(), excl=[0]):
    r = rng.random()
    if r < 0.04:
        # one call whose arguments are huge / deeply nested data (nested through a non-last slot, through vectors,
        # through the last slot, or simply long); decided on the plain build with the default C stack
        consumers = [n for n in DEEP_CONSUMERS if n in table]
        name = rng.choice(consumers) if (consumers and rng.random() < 0.6) else rng.choice(names)
        while name in NEVER_WITH_ARGS or name in EXITS:
            name = rng.choice(names)
        a = max(1, table[name]["arity"])
        d = rng.choice(DEEP)
        args = [["list", d if (i == 0 or rng.random() < 0.8) else rng.choice(DEEP)] for i in range(min(a, 3))]
        if table[name]["arity"] >= 2 and rng.random() < 0.3:
            args[rng.randrange(len(args))] = ["fixnum", rng.choice(["0", "1", "100000"])]
        return {"kind": "calls", "deep": True, "steps": [{"proc": name, "args": args}]}
    if r < 0.12:
        return {"kind": "text", "text": gen_text(rng), "how": rng.choice(["read", "eval", "string->number", "read-all", "native-read", "native-read", "native-eval"])}
    if r < 0.15:
        c = {"kind": "nest", "shape": rng.choice(["paren", "quote", "vector", "call", "let", "string-in-list", "lambda"]),
             "depth": rng.choice([100, 1000, 10000, 50000, 200000]), "native": rng.randrange(2)}
        if "KF-C01-reader-depth" in known and c["native"] and c["depth"] > 20000:
            excl[0] += 1
            c["depth"] = 20000
        return c
    steps = []
    for i in range(rng.choice([1, 1, 2, 3, 4, 6, 10])):
        st = gen_step(rng, table, names, len(steps))
        if excluded_by_finding(st, known):
            excl[0] += 1
            st["args"] = st["args"][:1]
        steps.append(st)
    if rng.random() < 0.02:
        steps.append({"proc": rng.choice(sorted(EXITS)), "args": [[c, e] for c, e in [("fixnum", "0")][:rng.randrange(2)]]})
    return {"kind": "calls", "steps": steps}


def render(case):
    if case["kind"] == "calls":
        out = []
        for i, s in enumerate(case["steps"]):
            call = "(%s%s)" % (s["proc"], "".join(" " + a[1] for a in s["args"]))
            if any(a[0] == "cont" for a in s["args"]):
                call = "(call/cc (lambda (k) %s))" % call
            out.append("(vstep %d (lambda () %s))" % (i, call))
        return "\n".join(out) + "\n(vprobe)\n"
    if case["kind"] == "text":
        t = E.scm_str(case["text"])
        if case["how"] == "read":
            body = "(read (open-input-string %s))" % t
        elif case["how"] == "native-read":
            body = "(native-read (open-input-string %s))" % t
        elif case["how"] == "native-eval":
            body = "(eval (native-read (open-input-string %s)) (scheme-report-environment 5))" % t
        elif case["how"] == "read-all":
            body = "(let ((p (open-input-string %s))) (let lp ((n 0)) (if (or (> n 50) (eof-object? (read p))) n (lp (+ n 1)))))" % t
        elif case["how"] == "string->number":
            body = "(list (string->number %s) (string->number %s 16) (string->number %s 2))" % (t, t, t)
        else:
            body = "(eval (read (open-input-string %s)) (scheme-report-environment 5))" % t
        return "(vstep 0 (lambda () %s))\n(vprobe)\n" % body
    if case["kind"] == "nest":
        d = case["depth"]
        sh = case["shape"]
        if sh == "paren":
            src = '(string-append (make-string %d #\\() (make-string %d #\\)))' % (d, d)
        elif sh == "quote":
            src = '(string-append (make-string %d #\\\') "x")' % d
        elif sh == "vector":
            src = '(apply string-append (append (make-list %d "#(") (make-list %d ")")))' % (d, d)
        elif sh == "string-in-list":
            src = '(string-append (make-string %d #\\() "\\"s\\"" (make-string %d #\\)))' % (d, d)
        elif sh == "call":
            src = '(string-append (apply string-append (make-list %d "(car ")) "x" (make-string %d #\\)))' % (d, d)
        elif sh == "let":
            src = '(string-append (apply string-append (make-list %d "(let ((x 1)) ")) "x" (make-string %d #\\)))' % (d, d)
        else:
            src = '(string-append (apply string-append (make-list %d "(lambda () ")) "x" (make-string %d #\\)))' % (d, d)
        rd = "native-read" if case.get("native") else "read"
        how = ("(eval (" + rd + " (open-input-string %s)) (scheme-report-environment 5))") if sh in ("call", "let", "lambda") else ("(begin (" + rd + " (open-input-string %s)) 'done)")
        return "(vstep 0 (lambda () %s))\n(vprobe)\n" % (how % src)
    raise ValueError(case)


# --------------------------------------------------------------------------- execution

class Ctx:
    def __init__(self):
        self.scratch = tempfile.mkdtemp(prefix="c01-", dir="/var/tmp")
        with open(os.path.join(self.scratch, "scratch.txt"), "w") as f:
            f.write("(define scratch-loaded 1)\n\"text\" 42\n")
        self.drivers = {}
        self.probe = {}
        self.table = None
        self.names = None

    def driver(self, variant):
        if variant not in self.drivers:
            d = Driver(variant, imports=IMPORTS, prelude=PRELUDE, heap="8M/256M", cwd=self.scratch)
            r = d.run("(define pool-param (make-parameter 1))\n(vprobe)\n", cpu=30)
            m = re.search(r"^@@P (.*)$", r.body, re.M)
            if not m:
                raise RuntimeError("probe failed in pristine context: %r %r" % (r.out[-500:], r.err[-500:]))
            self.probe[variant] = m.group(1)
            self.drivers[variant] = d
            if self.table is None:
                self.table = load_table(d)
                self.names = sorted(n for n in self.table if n not in SKIP and n not in EXITS)
        return self.drivers[variant]

    def close(self):
        for d in self.drivers.values():
            d.close()
        shutil.rmtree(self.scratch, ignore_errors=True)


def sanitizer_site(r):
    head = r.err.split("is located")[0].split("allocated by")[0]
    fr = re.findall(r"#\d+ 0x[0-9a-f]+ in (\S+)", head)
    fr = [f for f in fr if not f.startswith("__") and not f.startswith("_IO") and f not in ("child_run", "main", "_start")]
    keep = [f for i, f in enumerate(fr) if i == 0 or f not in ("sexp_apply", "sexp_eval_op")]
    kind = re.search(r"AddressSanitizer: (\S+)", r.err)
    return (kind.group(1) if kind else "signal%s" % r.code) + ":" + "<".join(keep[:2])


def run_case(ctx, case, variant):
    d = ctx.driver(variant)
    prog = "(define pool-param (make-parameter 1))\n" + render(case)
    r = d.run(prog, cpu=8, check=1, poison=1 if variant == "asan" else 0, finalgc=1)
    info = {"errors": 0}
    steps = dict(re.findall(r"^@@(\d+) (V|E \w+)$", r.body, re.M))
    info["errors"] = sum(1 for v in steps.values() if v.startswith("E"))
    info["values"] = sum(1 for v in steps.values() if v == "V")
    if r.status in ("cpu", "wall"):
        info["inconclusive"] = True
        return None, info
    has_exit = case["kind"] == "calls" and any(s["proc"] in EXITS for s in case["steps"])
    if r.status == "crash" or (r.status == "exited" and not has_exit) or (r.status == "exited" and r.code not in (0, 1, 70) and has_exit and r.kind == "signal"):
        if "#!OOM" in r.out or "out of memory" in r.err.lower() and "AddressSanitizer" not in r.err:
            info["oom"] = True
            return None, info
        return ({"signature": "crash/" + sanitizer_site(r),
                 "detail": "child died: status=%s kind=%s code=%s\n%s\nprogram:\n%s" % (r.status, r.kind, r.code, r.err[-3000:], prog)}, info)
    if r.status == "exited":
        return None, info
    if r.end.get("check_fail", 0):
        return ({"signature": "heap-check/" + r.end["msg"].split(" at ")[0], "detail": "heap checker after history: %s\nprogram:\n%s" % (r.end["msg"], prog)}, info)
    if "#!OOM" in r.body:
        info["oom"] = True
        return None, info
    m = re.search(r"^@@P (.*)$", r.body, re.M)
    if not m:
        if "#!OOS" in r.body:
            # out-of-stack error object delivered to the embedder; the probe form itself must still run
            pass
        return ({"signature": "containment/probe-missing", "detail": "probe did not run after the history\nout=%r\nerr=%r\nprogram:\n%s" % (r.body[-800:], r.err[-500:], prog)}, info)
    if m.group(1) != ctx.probe[variant]:
        return ({"signature": "containment/probe-differs", "detail": "probe output differs after the history\npristine: %s\nafter:    %s\nprogram:\n%s" % (ctx.probe[variant], m.group(1), prog)}, info)
    return None, info


def classify(case):
    if case["kind"] != "calls":
        return case["kind"] + ":" + case.get("how", case.get("shape", ""))
    if case.get("deep"):
        return "calls:deep-data"
    return None


def nontrivial_key(case):
    if case["kind"] == "calls":
        return [[s["proc"]] + [a[0] for a in s["args"]] for s in case["steps"]]
    return case


def shrink(ctx, case, variant, sig):
    if case["kind"] != "calls":
        return case
    cur = case
    # drop steps, then drop args
    changed = True
    budget = 40
    while changed and budget > 0:
        changed = False
        for i in range(len(cur["steps"])):
            budget -= 1
            cand = dict(cur, steps=cur["steps"][:i] + cur["steps"][i + 1:])
            if any(a[0] == "result" for s in cand["steps"] for a in s["args"]):
                continue
            if not cand["steps"]:
                continue
            v, _ = run_case(ctx, cand, variant)
            if v and v["signature"] == sig:
                cur = cand
                changed = True
                break
    return cur


def shards(tier, seed, nshards, known):
    return [{"tier": tier, "seed": seed, "shard": i, "nshards": nshards, "known": known} for i in range(nshards)]


def matches_finding(v, f):
    """a violation matches KF-C01-printer only if its (shrunk) case prints such an object to a non-output/closed port"""
    case = v.get("case") or {}
    if f.get("id") == "KF-C01-reader-depth":
        return case.get("kind") == "nest" and bool(case.get("native")) and case.get("depth", 0) > 20000 and "signal11" in v.get("signature", "")
    if f.get("id") != "KF-C01-printer":
        return False
    if case.get("kind") != "calls":
        return False
    for st in case["steps"]:
        if st["proc"] in WRITERS and len(st["args"]) >= 2 and st["args"][0][0] in ("record", "exception", "result", "env", "promise", "cont", "parameter"):
            return True
    return False


def run_shard(spec):
    res = E.ShardResult()
    rng = random.Random(E.subseed(spec["seed"], "C01", spec["shard"]))
    ctx = Ctx()
    quick = spec["tier"] != "thorough"
    n = 600 if quick else 60000
    seen = set()
    skip_pairs = set()
    excl = [0]
    try:
        ctx.driver("asan")
        res.extra["max_table_size"] = len(ctx.names)
        for it in range(n):
            case = gen_case(rng, ctx.table, ctx.names, spec["known"], excl)
            variant = "asan"
            if case["kind"] == "nest" or case.get("deep"):
                variant = "plain"       # deep nesting is decided on the build users run (default 8 MB C stack)
            if case["kind"] == "calls":
                key = tuple((s["proc"], tuple(a[1] for a in s["args"] if a[0] == "list")) for s in case["steps"])
                if any(k in skip_pairs for k in key):
                    res.excluded["skipped_after_timeout"] += 1
                    continue
            v, info = run_case(ctx, case, variant)
            if info.get("inconclusive"):
                res.inconclusive += 1
                if case["kind"] == "calls":
                    for s in case["steps"]:
                        skip_pairs.add((s["proc"], tuple(a[1] for a in s["args"] if a[0] == "list")))
            if info.get("oom"):
                res.excluded["out_of_memory"] += 1
            cls = [classify(case) or "calls"]
            if case["kind"] == "calls":
                cls += ["steps:%d" % len(case["steps"])]
            res.case(nontrivial_key(case), info.get("errors", 0) > 0, cls=cls, sample=(it % 50 == 0))
            res.extra["steps_value"] = res.extra.get("steps_value", 0) + info.get("values", 0)
            res.extra["steps_error"] = res.extra.get("steps_error", 0) + info.get("errors", 0)
            if v and v["signature"] not in seen:
                seen.add(v["signature"])
                small = shrink(ctx, case, variant, v["signature"])
                v2, _ = run_case(ctx, small, variant)
                if v2 and v2["signature"] == v["signature"]:
                    v, case = v2, small
                res.violation(dict(case, variant=variant), v["signature"], v["detail"])
    finally:
        ctx.close()
    res.excluded["excluded_by_known_finding"] += excl[0]
    return res


_CTX = None


def replay(case):
    global _CTX
    if _CTX is None:
        _CTX = Ctx()
        import atexit
        atexit.register(_CTX.close)
    variant = case.get("variant", "asan")
    c = {k: v for k, v in case.items() if k != "variant"}
    v, info = run_case(_CTX, c, variant)
    if v:
        v["case"] = case
    return v
