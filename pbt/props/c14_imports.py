"""C14 -- library imports expose exactly the requested bindings and nothing else.

Generated library graphs (<= 6 libraries written as .sld files into a scratch directory:
uniquely tagged values, random export subsets, renamed exports, exported macros expanding
into references to private helpers, re-exports, a shared logging library called from every
library body) and generated import-set expressions (only / except / rename / prefix /
drop-prefix nested to depth 4, valid by construction).  Oracle: a set-algebra model in
Python: for every candidate name the program evaluates (eval 'n env) under a guard; bound
names must yield the tagged value of the model, all others must be unbound; exported
macros must work while their helper stays invisible; every library body runs exactly once.
"""
import os
import random
import re
import shutil
import subprocess
import tempfile

from hypothesis import strategies as st

from .. import build as B
from .. import engine as E

VARIANTS = ["plain"]
RULE = ("case = (library graph of 2-6 .sld libraries, list of import-set expressions of nesting depth <= 4 per environment); "
        "checked name by name over the union of all names with all prefixes used; non-trivial iff an import set nests >= 2 "
        "modifiers with a rename or prefix beneath an only/except, or a library has a renamed export; distinct by "
        "(graph, import set)")
ASSUMPTIONS = ["mutation of imported bindings is not part of the claim", "import sets are valid by construction (no unknown identifiers, no clashes)"]

NAMES = ["a", "b", "c", "d", "e", "f"]


class Graph(object):
    def __init__(self, ch):
        self.ch = ch
        self.libs = []      # dict(name, defs[list of internal names], exports {external: internal}, macro, imports[...])
        n = 2 + ch.n(4)
        for i in range(n):
            lname = "l%d" % i
            defs = [x for x in NAMES if ch.p(0.7)] or ["a"]
            exports = {}
            for d in defs:
                if ch.p(0.7):
                    if ch.p(0.25):
                        exports["%s-%s" % (d, lname)] = d        # renamed export
                    else:
                        exports[d] = d
            lib = {"name": lname, "defs": defs, "exports": exports, "macro": ch.p(0.5), "reexport": None}
            # re-export one binding of an earlier library
            if i > 0 and ch.p(0.4):
                src = self.libs[ch.n(i)]
                cands = [e for e in src["exports"] if e not in exports and e not in defs]
                if cands:
                    e = ch.pick(cands)
                    lib["reexport"] = (src["name"], e)
            self.libs.append(lib)

    def value_of(self, lname, internal):
        return "(%s . %s)" % (lname, internal)

    def exports_model(self, lname):
        """external name -> tagged value text"""
        lib = [l for l in self.libs if l["name"] == lname][0]
        m = {}
        for ext, internal in lib["exports"].items():
            m[ext] = self.value_of(lname, internal)
        if lib["macro"]:
            m["get-hidden-" + lname] = "MACRO:" + lname
        if lib["reexport"]:
            src, e = lib["reexport"]
            m[e] = self.exports_model(src)[e]
        return m

    def write(self, root):
        os.makedirs(os.path.join(root, "gen"))
        with open(os.path.join(root, "gen", "log.sld"), "w") as f:
            f.write("(define-library (gen log)\n  (export log! get-log)\n  (import (scheme base))\n  (begin (define the-log '()) (define (log! x) (set! the-log (cons x the-log))) (define (get-log) the-log)))\n")
        for lib in self.libs:
            exps = []
            for ext, internal in sorted(lib["exports"].items()):
                exps.append(ext if ext == internal else "(rename %s %s)" % (internal, ext))
            if lib["macro"]:
                exps.append("get-hidden-" + lib["name"])
            imports = "(scheme base) (gen log)"
            if lib["reexport"]:
                src, e = lib["reexport"]
                exps.append(e)
                imports += " (only (gen %s) %s)" % (src, e)
            body = ["(log! '%s)" % lib["name"]]
            for d in lib["defs"]:
                body.append("(define %s '(%s . %s))" % (d, lib["name"], d))
            if lib["macro"]:
                body.append("(define hidden-%s '(%s . hidden))" % (lib["name"], lib["name"]))
                body.append("(define-syntax get-hidden-%s (syntax-rules () ((_) hidden-%s)))" % (lib["name"], lib["name"]))
            with open(os.path.join(root, "gen", lib["name"] + ".sld"), "w") as f:
                f.write("(define-library (gen %s)\n  (export %s)\n  (import %s)\n  (begin %s))\n" % (lib["name"], " ".join(exps), imports, "\n         ".join(body)))


def gen_import_set(ch, g, depth, tags):
    """returns (text, model dict external -> value)"""
    lib = ch.pick(g.libs)
    text = "(gen %s)" % lib["name"]
    model = dict(g.exports_model(lib["name"]))
    nmods = ch.n(depth + 1)
    seq = []
    for _ in range(nmods):
        names = sorted(model)
        kind = ch.pick(["only", "except", "rename", "prefix", "drop-prefix"])
        if kind == "only" and names:
            keep = [n for n in names if ch.p(0.6)] or [names[0]]
            text = "(only %s %s)" % (text, " ".join(keep))
            model = dict((k, model[k]) for k in keep)
        elif kind == "except" and names:
            drop = [n for n in names if ch.p(0.3)]
            if not drop:
                continue
            text = "(except %s %s)" % (text, " ".join(drop))
            for k in drop:
                del model[k]
        elif kind == "rename" and names:
            ren = {}
            for n in names:
                if ch.p(0.4):
                    new = "%s~%d" % (n, len(seq))
                    if new not in model and new not in ren.values():
                        ren[n] = new
            if not ren:
                continue
            text = "(rename %s %s)" % (text, " ".join("(%s %s)" % kv for kv in sorted(ren.items())))
            model = dict((ren.get(k, k), v) for k, v in model.items())
        elif kind == "prefix":
            p = ch.pick(["p:", "q-", "x"])
            text = "(prefix %s %s)" % (text, p)
            model = dict((p + k, v) for k, v in model.items())
        elif kind == "drop-prefix":
            p = ch.pick(["p:", "q-", "x"])
            new = {}
            for k, v in model.items():
                nk = k[len(p):] if (k.startswith(p) and len(k) > len(p)) else k
                new[nk] = v
            if len(new) != len(model):
                continue            # would make two bindings clash
            text = "(drop-prefix %s %s)" % (text, p)
            model = new
        else:
            continue
        seq.append(kind)
    for i, k in enumerate(seq):
        if k in ("only", "except") and any(x in ("rename", "prefix") for x in seq[:i]):
            tags.add("modifier-over-rename-or-prefix")
    if any(ext != internal for ext, internal in lib["exports"].items()):
        tags.add("renamed-export")
    return text, model


def build_case(ch):
    g = Graph(ch)
    tags = set()
    envs = []
    for _ in range(1 + ch.n(4)):
        sets = []
        model = {}
        for _ in range(1 + ch.n(3)):
            t, m = gen_import_set(ch, g, 4, tags)
            # two different bindings under one name would be an error: skip such a set
            if any(k in model and model[k] != v for k, v in m.items()):
                continue
            sets.append(t)
            model.update(m)
        if sets:
            envs.append((sets, model))
    return g, envs, tags


def candidates(g, envs):
    names = set()
    for lib in g.libs:
        names.update(lib["defs"])
        names.update(lib["exports"])
        names.add("hidden-" + lib["name"])
        names.add("get-hidden-" + lib["name"])
    for sets, model in envs:
        names.update(model)
    more = set()
    for n in names:
        for p in ("p:", "q-", "x"):
            more.add(p + n)
    return sorted(names | more)


def program(g, envs):
    cand = candidates(g, envs)
    lines = ["(import (scheme base) (scheme write) (scheme eval) (gen log))"]
    for i, (sets, model) in enumerate(envs):
        lines.append("(define env%d (environment '(scheme base) %s))" % (i, " ".join("'" + s for s in sets)))
        for n in cand:
            if n.startswith("get-hidden-"):
                expr = "(%s)" % n
            else:
                expr = n
            lines.append("(write (list %d '|%s| (guard (e (#t 'unbound)) (eval '%s env%d)))) (newline)" % (i, n, "(|%s|)" % n if n.startswith("get-hidden-") or "get-hidden-" in n else "|%s|" % n, i))
    lines.append("(write (list 'log (get-log))) (newline)")
    return "\n".join(lines) + "\n", cand


def run_case(g, envs):
    root = tempfile.mkdtemp(prefix="c14-", dir="/var/tmp")
    try:
        g.write(root)
        prog, cand = program(g, envs)
        with open(os.path.join(root, "main.scm"), "w") as f:
            f.write(prog)
        d = B.build("plain")
        env = B.run_env(d)
        try:
            r = subprocess.run([os.path.join(d, "chibi-scheme"), "-A", root, os.path.join(root, "main.scm")], capture_output=True, timeout=120, env=env, cwd=root)
        except subprocess.TimeoutExpired:
            return None, "inconclusive", ""
        out = r.stdout.decode(errors="replace")
        err = r.stderr.decode(errors="replace")
        files = {}
        for fn in sorted(os.listdir(os.path.join(root, "gen"))):
            files[fn] = open(os.path.join(root, "gen", fn)).read()
        desc = "\n".join(";; %s\n%s" % kv for kv in files.items()) + "\n;; main.scm (abridged)\n" + "\n".join(l for l in prog.split("\n") if l.startswith("(define env"))
        if r.returncode != 0:
            return E.Found("import-fails", "chibi exited %d\n%s\n%s" % (r.returncode, err[-800:], desc)), "ok", desc
        got = {}
        log = None
        for ln in out.split("\n"):
            m = re.match(r"\((\d+) (\S+) (.*)\)$", ln)
            if m:
                got[(int(m.group(1)), m.group(2).strip("|"))] = m.group(3)
            m = re.match(r"\(log \((.*)\)\)$", ln)
            if m:
                log = m.group(1).split()
        for i, (sets, model) in enumerate(envs):
            for n in cand:
                want = model.get(n)
                g_ = got.get((i, n))
                if g_ is None:
                    return E.Found("no-output", "no result for %s in env %d\n%s\n%s" % (n, i, err[-300:], desc)), "ok", desc
                if want is None:
                    if g_ != "unbound":
                        return E.Found("extra-binding-visible", "env %d %r: %s is bound to %s but the import sets do not include it\n%s" % (i, sets, n, g_, desc)), "ok", desc
                elif want.startswith("MACRO:"):
                    if g_ != "(%s . hidden)" % want[6:]:
                        return E.Found("exported-macro-broken", "env %d %r: (%s) gave %s\n%s" % (i, sets, n, g_, desc)), "ok", desc
                elif g_ != want:
                    return E.Found("missing-binding" if g_ == "unbound" else "wrong-binding", "env %d %r: %s evaluates to %s, expected %s\n%s" % (i, sets, n, g_, want, desc)), "ok", desc
        if log is not None:
            used = set()
            for lib in g.libs:
                pass
            if len(log) != len(set(log)):
                return E.Found("library-body-evaluated-twice", "log %r\n%s" % (log, desc)), "ok", desc
        return None, "ok", desc
    finally:
        shutil.rmtree(root, ignore_errors=True)


def shards(tier, seed, nshards, known):
    return [{"tier": tier, "seed": seed, "shard": i, "nshards": nshards, "known": known} for i in range(nshards)]


def run_shard(spec):
    res = E.ShardResult()
    quick = spec["tier"] != "thorough"
    rng = random.Random(E.subseed(spec["seed"], "C14", spec["shard"]))
    last = {}

    def test(data):
        ch = E.HypChooser(data)
        g, envs, tags = build_case(ch)
        if not envs:
            return
        found, status, desc = run_case(g, envs)
        if status == "inconclusive":
            res.inconclusive += 1
            return
        nt = bool(tags)
        res.case({"envs": [s for s, _ in envs], "libs": [l["name"] for l in g.libs]}, nt, cls=sorted(tags) + ["envs:%d" % len(envs)], sample=nt and rng.random() < 0.05)
        res.extra["import_sets_checked"] = res.extra.get("import_sets_checked", 0) + sum(len(s) for s, _ in envs)
        if found:
            last["case"] = {"trace": ch.trace}
            raise found

    E.hypothesis_search(st.data(), test, E.subseed(spec["seed"], "C14h", spec["shard"]), 40 if quick else 3000, res, to_case=lambda d: dict(last.get("case") or {}))
    return res


def replay_files(case):
    root = tempfile.mkdtemp(prefix="c14-", dir="/var/tmp")
    try:
        for fn, text in case["files"].items():
            os.makedirs(os.path.dirname(os.path.join(root, fn)), exist_ok=True)
            open(os.path.join(root, fn), "w").write(text)
        d = B.build("plain")
        r = subprocess.run([os.path.join(d, "chibi-scheme"), "-A", root, os.path.join(root, "main.scm")], capture_output=True, timeout=120, env=B.run_env(d), cwd=root)
        out = r.stdout.decode(errors="replace").strip().split("\n")
        if r.returncode != 0 or out != case["expect"]:
            return {"signature": "regression:" + case.get("name", "?"), "detail": "exit %d, printed %r, expected %r\n%s" % (r.returncode, out, case["expect"], r.stderr.decode(errors="replace")[-600:]), "case": case}
        return None
    finally:
        shutil.rmtree(root, ignore_errors=True)


def replay(case):
    if "files" in case:
        return replay_files(case)
    ch = E.ReplayChooser(case["trace"])
    g, envs, tags = build_case(ch)
    if not envs:
        return None
    found, status, desc = run_case(g, envs)
    if found:
        return {"signature": found.signature, "detail": found.detail, "case": case}
    return None
