"""C08 -- external representations round-trip; both reader/writer pairs agree.

Data are built by constructor expressions (never by the reader): exact numbers from the C04
generator, flonums from their 64 bit patterns (bytes stored with bytevector-u8-set! and
fetched with bytevector-ieee-double-native-ref), chars / strings / symbols over all scalar
values, lists, dotted lists, vectors, bytevectors, shared and circular structure.  For every
writer W in {native write, (scheme write) write, write-shared} and reader R in {native read,
(scheme read) read}: R(W(x)) must be the same datum (flonums bit-identical).  Writer
correctness is checked independently: Python parses the written flonum text and must get the
same double.  Arbitrary / mutated texts go to both readers, which must agree.
"""
import os
import random
import re
import struct

from hypothesis import strategies as st

from .. import engine as E
from .. import numgen as N
from ..worker import Driver
from .c01_memory_safety import TEXT_ATOMS

VARIANTS = ["plain"]
IMPORTS = ["(scheme base)", "(scheme write)", "(scheme read)", "(scheme char)", "(scheme complex)", "(scheme inexact)",
           "(only (scheme bytevector) bytevector-ieee-double-native-ref)",
           "(rename (only (chibi) read write) (read native-read) (write native-write))"]
PRELUDE = os.path.join(E.VERIF, "harness", "scm", "prelude_c08.scm")
RULE = ("case = datum built by a constructor expression (tree depth <= 6 over exact integers / ratios / flonums from bit patterns / "
        "complex / chars / strings / symbols over all scalar values / lists / dotted lists / vectors / bytevectors / shared and "
        "circular structure with <= 6 labels, and lists / vectors of 20-200 shared cells for the label table's growth), or a block of doubles given as bit patterns, or a block of 4096 scalar values, or a "
        "text fed to both readers; non-trivial iff the datum contains a flonum needing >= 16 significant digits, a non-ASCII or "
        "escaped character, a symbol needing bars, a bignum / ratio / complex, or a datum label; distinct by case digest")
ASSUMPTIONS = ["bytevector-ieee-double-native-ref is a memcpy (independent of readers and writers)",
               "Python float() is a correctly rounded decimal-to-double conversion"]


# --------------------------------------------------------------------------- floats

def half_to_double_bits(h):
    sign = (h >> 15) & 1
    e = (h >> 10) & 0x1F
    m = h & 0x3FF
    if e == 0:
        v = m * 2.0 ** -24
    elif e == 31:
        v = float("inf") if m == 0 else float("nan")
    else:
        v = (1 + m / 1024.0) * 2.0 ** (e - 15)
    if sign:
        v = -v
    return struct.unpack("<Q", struct.pack("<d", v))[0]


def float_patterns(rng, n_random, halves):
    pats = []
    for h in halves:
        pats.append(half_to_double_bits(h))
    specials = [0, 1 << 63, 0x7FF0000000000000, 0xFFF0000000000000, 0x7FF8000000000000, 1, 2, 0x000FFFFFFFFFFFFF, 0x0010000000000000,
                0x7FEFFFFFFFFFFFFF, 0x3FF0000000000000, 0x3FF0000000000001, 0x3FEFFFFFFFFFFFFF, 0x4340000000000000, 0x433FFFFFFFFFFFFF,
                0x4330000000000000, 0x43E0000000000000, 0x43D0000000000000]
    for e in range(0, 2047, 31):
        specials.append(e << 52)
        specials.append((e << 52) | 0xFFFFFFFFFFFFF)
    for k in range(-30, 31):
        specials.append(struct.unpack("<Q", struct.pack("<d", 10.0 ** k))[0])
    for x in (4.3370001234e-301, 0.1, 0.2, 0.3, 1e23, 9007199254740993.0, 5e-324, 1.7976931348623157e308, 2.2250738585072014e-308, 123456789.123456789):
        specials.append(struct.unpack("<Q", struct.pack("<d", x))[0])
    pats += specials
    for _ in range(n_random):
        k = rng.random()
        if k < 0.6:
            pats.append(rng.getrandbits(64))
        elif k < 0.8:
            pats.append(struct.unpack("<Q", struct.pack("<d", rng.uniform(-1e6, 1e6)))[0])
        else:
            pats.append(struct.unpack("<Q", struct.pack("<d", float("%.*g" % (rng.randrange(1, 17), rng.uniform(0, 1) * 10.0 ** rng.randrange(-320, 308))))) [0])
    return pats


def parse_scheme_float(s):
    s = s.strip()
    if s == "+inf.0":
        return float("inf")
    if s == "-inf.0":
        return float("-inf")
    if s in ("+nan.0", "-nan.0"):
        return float("nan")
    return float(s)


def float_block(d, pats, res):
    body = " ".join(" ".join(str(b) for b in struct.pack("<Q", p)) for p in pats)
    prog = "(float-sweep (bytevector %s) #t)\n" % body
    r = d.run(prog, cpu=300)
    if r.status != "ok":
        res.violation({"floats": pats[:50]}, "float-block/" + r.status, "float block did not complete: %s %s" % (r.status, r.err[-500:]))
        return
    texts = {}
    fails = {}
    for ln in r.body.split("\n"):
        if ln.startswith("T "):
            _, i, s = ln.split(" ", 2)
            texts[int(i)] = s
        elif ln.startswith("F "):
            _, i, rest = ln.split(" ", 2)
            fails[int(i)] = rest
    for i, p in enumerate(pats):
        x = struct.unpack("<d", struct.pack("<Q", p))[0]
        s = texts.get(i, "")
        nt = len(re.sub(r"[^0-9]", "", s.split("e")[0]).lstrip("0")) >= 16
        res.case({"double_bits": "%016x" % p}, nt, cls="float", sample=False)
        case = {"floats": [p]}
        if i in fails:
            res.violation(case, "float/roundtrip", "bits %016x (%r): write/read round trip failed: %s" % (p, x, fails[i]))
            continue
        try:
            y = parse_scheme_float(s)
        except ValueError:
            res.violation(case, "float/unparsable-text", "bits %016x written as %r" % (p, s))
            continue
        if not (y == x or (y != y and x != x)) or (y == 0 and struct.pack("<d", y) != struct.pack("<d", x) and x == x):
            res.violation(case, "float/writer-wrong-value", "bits %016x (%r) written as %r which denotes %r" % (p, x, s, y))


# --------------------------------------------------------------------------- data trees

def code_point(ch):
    k = ch.n(8)
    if k == 0:
        return ch.pick([0x41, 0x61, 0x30, 0x20, 0x7E])
    if k == 1:
        return ch.pick([0, 7, 8, 9, 10, 13, 27, 0x22, 0x5C, 0x7C, 0x7F, 0x23, 0x28, 0x29, 0x3B, 0x27, 0x2C, 0x60])
    if k == 2:
        return ch.pick([0x80, 0x85, 0xA0, 0xFF, 0x100, 0x3BB, 0x7FF])
    if k == 3:
        return ch.pick([0x800, 0x2028, 0x4E16, 0xD7FF, 0xE000, 0xFEFF, 0xFFFD, 0xFFFF])
    if k == 4:
        return ch.pick([0x10000, 0x1F600, 0x10FFFF, 0xE0001])
    return 0x61 + ch.n(26)


def str_expr(ch, maxlen=6):
    n = ch.n(maxlen)
    return "(string %s)" % " ".join("(integer->char %d)" % code_point(ch) for _ in range(n))


def dbl_expr(bits):
    return "(bytevector-ieee-double-native-ref (bytevector %s) 0)" % " ".join(str(b) for b in struct.pack("<Q", bits))


def big_expr(n):
    """an exact integer built by arithmetic from literals below 10^9, so that the datum handed to the writer does not
    depend on the reader under test (a literal would go through the same reader twice and hide a consistent misreading)"""
    if n < 0:
        return "(- %s)" % big_expr(-n)
    if n < 10 ** 9:
        return str(n)
    return "(+ (* %s 1000000000) %d)" % (big_expr(n // 10 ** 9), n % 10 ** 9)


class TreeGen(object):
    def __init__(self, ch, rng):
        self.ch = ch
        self.rng = rng
        self.tags = set()

    def leaf(self):
        ch = self.ch
        k = ch.n(12)
        if k == 0:
            return str(ch.pick([0, 1, -1, 42, 4611686018427387903, -4611686018427387904]))
        if k == 1:
            self.tags.add("bignum")
            r = random.Random(ch.n(1 << 30))
            if ch.p(0.4):
                # decimal lengths around the word boundaries (19-21 and 38-40 digits), any leading digits
                n = r.randrange(10 ** (ch.pick([18, 19, 19, 20, 37, 38, 39]))) * ch.pick([1, 1, -1])
                return big_expr(n + ch.pick([0, 10 ** 19, 2 * 10 ** 19, 10 ** 20]))
            return big_expr(N.rand_int(r, 300))
        if k == 2:
            self.tags.add("ratio")
            r = N.rand_ratio(random.Random(ch.n(1 << 30)), 120)
            return "(/ %s %s)" % (big_expr(r.numerator), big_expr(r.denominator))
        if k == 3:
            self.tags.add("flonum")
            return dbl_expr(ch.pick([0, 1 << 63, 0x7FF0000000000000, 0xFFF0000000000000, 0x7FF8000000000000, 0x3FB999999999999A, 1, 0x7FEFFFFFFFFFFFFF]))
        if k == 4:
            self.tags.add("flonum")
            return dbl_expr(random.Random(ch.n(1 << 30)).getrandbits(64))
        if k == 5:
            self.tags.add("char")
            return "(integer->char %d)" % code_point(ch)
        if k == 6:
            self.tags.add("string")
            return str_expr(ch)
        if k == 7:
            self.tags.add("symbol")
            if ch.p(0.4):
                return "(string->symbol %s)" % ch.pick(['"hello"', '""', '"1"', '"+1"', '"-"', '"1/2"', '"a b"', '"#foo"', '"|"', '"a|b"', '"\\\\"', '"."', '".."', '"1e5"', '"+inf.0"', '"A"', '"nan"', '"#t"', '"a;b"', '"(x)"', '"\'q"', '"+i"', '"-5x"', '"@"'])
            if ch.p(0.5):
                # names that look like (or start like) other lexical classes: numbers in any letter case, a leading
                # dot / sign / quote / backquote / comma / hash, peculiar identifiers
                if ch.p(0.4):
                    name = ch.pick([".5", "-.5", "+.5e3", "`a", "`", ",a", ",@a", "'a", "+INF.0", "-Inf.0", "+inf.0", "+NaN.0", "-nan.0", "+I", "-i",
                                    "1E5", "1e5", "#E1", "#xff", "#X1F", "1/2", "+1/2", "1@2", "+inf.0i", "1+2i", "1+I", "...", "..", ".a", "a.b",
                                    "+", "-", "+a", "-a", "+.", "-.", "+..", "1+", "-@", "+@", "@", "a@", "#", "a#", "#!eof", "#;", "#|", "|#"])
                else:
                    alpha = "+-.`,@#|\\\"' 0123456789aAeEiInNfFxX/{}[];()"
                    name = "".join(alpha[ch.n(len(alpha))] for _ in range(1 + ch.n(4)))
                return "(string->symbol %s)" % E.scm_str(name)
            return "(string->symbol %s)" % str_expr(ch, 4)
        if k == 8:
            return ch.pick(["#t", "#f", "'()", "(if #f #f)" if False else "'()", "(eof-object)" if False else "#t"])
        if k == 9:
            self.tags.add("complex")
            return "(make-rectangular %s %s)" % (ch.pick(["1", "-2", "1/2", "1.5", "-0.0", "1e100"]), ch.pick(["1", "-1", "2/3", "0.5", "+inf.0", "1e-7"]))
        if k == 10:
            return "(bytevector %s)" % " ".join(str(ch.n(256)) for _ in range(ch.n(5)))
        return str(ch.n(100))

    def tree(self, depth):
        ch = self.ch
        if depth <= 0 or ch.p(0.35):
            return self.leaf()
        k = ch.n(6)
        n = ch.n(4)
        if k == 0:
            return "(list %s)" % " ".join(self.tree(depth - 1) for _ in range(n))
        if k == 1:
            return "(cons %s %s)" % (self.tree(depth - 1), self.tree(depth - 1))
        if k == 2:
            return "(vector %s)" % " ".join(self.tree(depth - 1) for _ in range(n))
        if k == 3:
            self.tags.add("shared")
            return "(let ((s %s)) (list s %s s))" % (self.tree(depth - 1), self.tree(depth - 1))
        if k == 4:
            return "(list 'quote %s)" % self.tree(depth - 1)
        if ch.p(0.5):
            return self.dag(depth)
        return "(list %s %s)" % (self.tree(depth - 1), self.leaf())

    def dag(self, depth):
        """acyclic structure with sharing: later nodes refer to earlier ones in car, cdr and vector positions, so that
        shared tails of shared tails, shared cars of shared pairs ... occur"""
        ch = self.ch
        self.tags.add("shared")
        self.tags.add("dag")
        n = 2 + ch.n(4)
        binds = []
        if ch.p(0.12):
            # many labels: the reader's label table starts small and grows by doubling; every shared cell is complete
            # before the next label is opened and is referenced again after all of them
            self.tags.add("many-labels")
            n = ch.pick([20, 21, 22, 23, 24, 25, 26, 30, 40, 46, 47, 48, 49, 50, 94, 95, 96, 100, 130, 200]) + ch.n(3)
            binds = ["(s%d %s)" % (i, ch.pick(["(list %d)" % i, "(vector %d)" % i, "(cons %d %d)" % (i, i)])) for i in range(n)]
            order = list(range(n))
            if ch.p(0.5):
                random.Random(ch.n(1000)).shuffle(order)
            return "(let* (%s) (%s %s %s))" % (" ".join(binds), ch.pick(["list", "vector"]), " ".join("s%d" % i for i in range(n)),
                                               " ".join("s%d" % i for i in order))
        if ch.p(0.35):
            # a chain of tails, each of them also referenced directly: (x . #0=(y . #1=(z)))
            self.tags.add("shared-tail-chain")
            binds.append("(s0 %s)" % ch.pick(["(list %s)" % self.leaf(), "'()", "(vector %s)" % self.leaf(), self.leaf()]))
            for i in range(1, n):
                binds.append("(s%d (cons %s s%d))" % (i, self.leaf(), i - 1))
            order = list(range(n))
            random.Random(ch.n(1000)).shuffle(order)
            return "(let* (%s) (%s %s))" % (" ".join(binds), ch.pick(["list", "list", "vector", "cons*"]) if False else ch.pick(["list", "vector"]),
                                            " ".join("s%d" % i for i in order))
        for i in range(n):
            def ref():
                return "s%d" % ch.n(i) if (i > 0 and ch.p(0.7)) else self.leaf()
            k = ch.n(6)
            if k == 0:
                e = "(list %s)" % self.leaf()
            elif k == 1:
                e = "(cons %s %s)" % (self.leaf(), ref())
            elif k == 2:
                e = "(cons %s %s)" % (ref(), ref())
            elif k == 3:
                e = "(vector %s %s)" % (ref(), self.leaf())
            elif k == 4:
                e = "(list %s %s)" % (ref(), ref())
            else:
                e = "(cons %s (cons %s %s))" % (self.leaf(), ref(), ref())
            binds.append("(s%d %s)" % (i, e))
        items = " ".join("s%d" % ch.n(n) for _ in range(2 + ch.n(4)))
        return "(let* (%s) (%s %s))" % (" ".join(binds), ch.pick(["list", "list", "vector"]), items)

    def cyclic(self):
        ch = self.ch
        self.tags.add("cycle")
        k = ch.n(4)
        a, b = self.leaf(), self.leaf()
        if k == 0:
            return "(let ((p (list %s %s 3))) (set-cdr! (cddr p) p) p)" % (a, b)
        if k == 1:
            return "(let ((v (vector %s 0 %s))) (vector-set! v 1 v) v)" % (a, b)
        if k == 2:
            return "(let* ((p (list %s 2)) (q (list p %s p))) (set-car! (cdr p) q) q)" % (a, b)
        return "(let ((p (list 1 2)) (v (vector 0 0))) (vector-set! v 0 p) (vector-set! v 1 v) (set-cdr! (cdr p) (list v p)) v)"


NT_TAGS = {"bignum", "ratio", "complex", "shared", "cycle", "symbol", "dag"}


_D = None


def driver():
    global _D
    if _D is None:
        _D = Driver("plain", imports=IMPORTS, prelude=PRELUDE)
    return _D


def check_datum(expr, cyclic):
    r = driver().run("(rt 0 %s %s)\n" % (expr, "#t" if cyclic else "#f"), cpu=8)
    if r.status in ("cpu", "wall"):
        return None, "inconclusive"
    if r.status != "ok":
        return E.Found("crash", "died: %s %s\n%s" % (r.status, r.err[-500:], expr)), "ok"
    m = re.search(r"^0 (OK|FAIL.*)$", r.body, re.M)
    if not m:
        if "#!ERR" in r.body:
            return None, "discard"       # the constructor expression itself raised (e.g. invalid code point)
        return E.Found("no-verdict", "no verdict line: %r\n%s" % (r.body[-300:], expr)), "ok"
    if m.group(1) != "OK":
        pairs = re.findall(r"\((native-write|write-shared|write) (native-read|read|write-error) ", m.group(1))
        return E.Found("roundtrip/" + "+".join(sorted(set("%s>%s" % p for p in pairs)))[:80], "datum %s\n%s" % (expr, m.group(1)[:1500])), "ok"
    return None, "ok"


def check_valid_texts(expr):
    r = driver().run("(valid-texts 0 %s)\n" % expr, cpu=8)
    if r.status in ("cpu", "wall"):
        return None, "inconclusive"
    if r.status != "ok":
        return E.Found("crash/valid-text", "died: %s %s\n%s" % (r.status, r.err[-500:], expr)), "ok"
    m = re.search(r"^0 (OK|FAIL.*)$", r.body, re.M)
    if not m:
        if "#!ERR" in r.body:
            return None, "discard"
        return E.Found("no-verdict/valid-text", "no verdict: %r\n%s" % (r.body[-300:], expr)), "ok"
    if m.group(1) != "OK":
        who = sorted(set(re.findall(r"\((native-read|read) ", m.group(1))))
        return E.Found("valid-text-rejected-or-changed/" + "+".join(who), "datum %s\n%s" % (expr, m.group(1)[:1500])), "ok"
    return None, "ok"


def check_text(text):
    r = driver().run("(read-both 0 %s)\n" % E.scm_str(text), cpu=10)
    if r.status in ("cpu", "wall"):
        return None, "inconclusive", ""
    if r.status != "ok":
        return E.Found("crash/text", "died: %s %s\ntext=%r" % (r.status, r.err[-500:], text)), "ok", ""
    m = re.search(r"^0 (BOTH-ERROR|SAME|ONE-ERROR.*|DIFFER.*)$", r.body, re.M)
    if not m:
        return E.Found("no-verdict/text", "no verdict: %r text=%r" % (r.body[-300:], text)), "ok", ""
    v = m.group(1)
    # arbitrary (mostly malformed) text: R7RS defines nothing, and the two readers are lenient in different places
    # (#u8 without a list, a lone #e, raw invalid UTF-8 ...).  Disagreements here are recorded as classes in the
    # evidence, not as violations; acceptance of *valid* text is checked by valid-texts below.
    return None, "ok", v


def shards(tier, seed, nshards, known):
    return [{"tier": tier, "seed": seed, "shard": i, "nshards": nshards, "known": known} for i in range(nshards)]


def run_shard(spec):
    res = E.ShardResult()
    quick = spec["tier"] != "thorough"
    rng = random.Random(E.subseed(spec["seed"], "C08", spec["shard"]))
    d = driver()
    # (1) floats
    halves = [h for h in range(65536) if h % spec["nshards"] == spec["shard"]]
    if quick:
        halves = halves[::8]
    pats = float_patterns(rng, 800 if quick else 60000, halves)
    for off in range(0, len(pats), 2048):
        float_block(d, pats[off:off + 2048], res)
    # (2) scalar sweep
    blocks = [b for b in range(0, 0x110000, 4096) if (b // 4096) % spec["nshards"] == spec["shard"]]
    if quick:
        keep = {0, 0x1000, 0xD000, 0xE000, 0xF000, 0x10000, 0x1F000, 0x10F000}
        blocks = [b for b in blocks if b in keep or rng.random() < 0.05]
    for b in blocks:
        r = d.run("(scalar-sweep %d %d)\n(escape-sweep %d %d)\n" % (b, b + 4096, b, b + 4096), cpu=600)
        bad = re.findall(r"^S (\d+) \((\S+) (\S+) (\S+)\)$", r.body, re.M)
        bad += [(cp, "hex-escape", rd, kind) for cp, rd, kind in re.findall(r"^X (\d+) \((\S+) (\S+)\)$", r.body, re.M)]
        res.case({"scalar_block": b}, b >= 0x80, cls="scalar-block", sample=False)
        res.extra["scalar_values_swept"] = res.extra.get("scalar_values_swept", 0) + 4096
        if r.status != "ok":
            res.violation({"scalar_block": b}, "scalar-block/" + r.status, r.err[-500:])
        seen = set()
        for cp, w, rd, kind in bad:
            sig = "scalar/%s/%s>%s/%s" % (kind, w, rd, "ascii" if int(cp) < 0x80 else "latin1" if int(cp) < 0x100 else "bmp" if int(cp) < 0x10000 else "astral")
            if sig not in seen:
                seen.add(sig)
                res.violation({"scalar_block": b, "cp": int(cp)}, sig, "code point U+%04X as %s does not survive %s -> %s" % (int(cp), kind, w, rd))
    if not quick:
        res.extra["exhaustive_scalar_sweep"] = True
    # (3) trees
    last = {}

    def test(data):
        ch = E.HypChooser(data)
        g = TreeGen(ch, rng)
        cyc = ch.p(0.15)
        expr = g.cyclic() if cyc else g.tree(5)
        found, status = check_datum(expr, cyc)
        if not found and status == "ok":
            found, status = check_valid_texts(expr)
        if status == "inconclusive":
            res.inconclusive += 1
            return
        if status == "discard":
            res.excluded["constructor_raised"] += 1
            return
        nt = bool(g.tags & NT_TAGS) or "flonum" in g.tags or "char" in g.tags or "string" in g.tags
        res.case(expr, nt, cls=sorted(g.tags), sample=nt and rng.random() < 0.01)
        if found:
            last["case"] = {"expr": expr, "cyclic": cyc}
            raise found

    E.hypothesis_search(st.data(), test, E.subseed(spec["seed"], "C08h", spec["shard"]), 400 if quick else 60000, res, to_case=lambda d_: last.get("case"))

    # (4) texts to both readers
    def test_text(data):
        ch = E.HypChooser(data)
        n = 1 + ch.n(10)
        text = "".join(ch.pick(TEXT_ATOMS) for _ in range(n))
        found, status, verdict = check_text(text)
        if status == "inconclusive":
            res.inconclusive += 1
            return
        res.case({"text": text}, verdict == "SAME", cls="text:" + verdict.split(" ")[0], sample=rng.random() < 0.005)
        if found:
            last["case"] = {"text": text}
            raise found

    E.hypothesis_search(st.data(), test_text, E.subseed(spec["seed"], "C08t", spec["shard"]), 300 if quick else 40000, res, to_case=lambda d_: last.get("case"))
    d.close()
    return res


def replay(case):
    res = E.ShardResult()
    if "floats" in case:
        float_block(driver(), case["floats"], res)
    elif "scalar_block" in case:
        cp = case.get("cp", case["scalar_block"])
        r = driver().run("(scalar-sweep %d %d)\n(escape-sweep %d %d)\n" % (cp, cp + 1, cp, cp + 1), cpu=60)
        bad = re.findall(r"^S (\d+) \((\S+) (\S+) (\S+)\)$", r.body, re.M)
        bad += [(c_, "hex-escape", rd, kind) for c_, rd, kind in re.findall(r"^X (\d+) \((\S+) (\S+)\)$", r.body, re.M)]
        if bad:
            cp, w, rd, kind = bad[0]
            sig = "scalar/%s/%s>%s/%s" % (kind, w, rd, "ascii" if int(cp) < 0x80 else "latin1" if int(cp) < 0x100 else "bmp" if int(cp) < 0x10000 else "astral")
            return {"signature": sig, "detail": repr(bad[:5]), "case": case}
        return None
    elif "text" in case:
        f, s, v = check_text(case["text"])
        if f:
            return {"signature": f.signature, "detail": f.detail, "case": case}
        return None
    else:
        f, s = check_datum(case["expr"], case.get("cyclic", False))
        if not f and s == "ok":
            f, s = check_valid_texts(case["expr"])
        if f:
            return {"signature": f.signature, "detail": f.detail, "case": case}
        return None
    if res.violations:
        v = res.violations[0]
        v["case"] = case
        return v
    return None
