"""C06 -- continuations, dynamic-wind, parameters and exceptions follow the R7RS model.

Control scripts (trees over wind / capture / invoke / parameterize / show / handler /
raise / raise-continuable / guard / seq / log) are rendered as ONE top-level expression
whose thunks push symbols onto a trace; the same text is run by chibi and by the CPS
reference interpreter (explicit wind list, handler stack and parameterisation written from
R7RS 6.7, 6.10, 6.11 and the 7.3 expansion of guard); traces must be equal.
All small scripts are enumerated; larger ones are drawn by Hypothesis.
"""
import itertools
import random

from hypothesis import strategies as st

from .. import engine as E
from .. import refscheme as R
from ..worker import Driver

VARIANTS = ["plain"]
IMPORTS = ["(scheme base)", "(scheme write)"]
RULE = ("case = control script (wind depth <= 4, <= 3 captured continuations each invoked <= 2 times from inside or outside "
        "its extent, parameterize with and without converter, with-exception-handler handlers that return or escape, raise "
        "and raise-continuable of symbols, guard with matching / non-matching clauses) rendered as one top-level expression; "
        "all scripts up to 3 nodes over the core alphabet are enumerated, larger ones drawn by Hypothesis; non-trivial iff the "
        "reference run performs >= 1 continuation invocation or raise that crosses >= 1 dynamic-wind frame (escape or re-entry); "
        "distinct by script digest")
ASSUMPTIONS = ["an after thunk runs with the extent already left and a before thunk with it not yet entered (the reference implementation of "
               "dynamic-wind); thunks raise or jump only on the normal path (body just returned / first entry by call) - jumps out of a "
               "thunk that a travelling continuation is running are unspecified in R7RS and are not generated",
               "scripts live inside one top-level expression (R7RS leaves the continuation of a top-level command open)",
               "payloads of secondary exceptions (handler returned from raise) are compared only as 'non-symbol'"]

HEADER = """(let ((trace '()) (k1 #f) (k2 #f) (k3 #f) (n1 0) (n2 0) (n3 0) (nw 0)
      (p1 (make-parameter 'p1-init))
      (p2 (make-parameter 0 (lambda (x) (list 'conv x)))))
  (define (log! x) (set! trace (cons x trace)))
  (define (kind e) (if (symbol? e) e 'non-symbol))
  (guard (e (#t (log! (list 'top-guard (kind e)))))
    (log! (list 'result
"""
FOOTER = """)))
  (write (reverse trace)))
"""


class ScriptGen(object):
    def __init__(self, ch, max_nodes=14):
        self.ch = ch
        self.budget = max_nodes
        self.winds = 0
        self.uid = 0
        self.tags = set()

    def node(self, depth, wdepth):
        ch = self.ch
        self.budget -= 1
        if self.budget <= 0 or depth <= 0:
            return self.leaf()
        kind = ch.pick(["wind", "capture", "invoke", "seq", "seq", "param", "handler", "guard", "raise", "raisec", "leaf", "show"])
        self.tags.add(kind)
        self.uid += 1
        u = self.uid
        if kind == "wind" and wdepth < 4:
            # before / after thunks that themselves raise or jump (at most three times per script), but only on the normal
            # path: the after thunk when the body has just returned normally, the before thunk on the first (call) entry.
            # By the wind model the extent has then already been left / is not yet entered.  Thunks that jump while a
            # continuation is travelling through them are left out: R7RS calls that unspecified (see DESIGN.md 14).
            mode = ch.pick(["plain", "plain", "plain", "after-raise", "after-invoke", "before-raise"])
            body = self.node(depth - 1, wdepth + 1)
            if mode == "plain":
                return "(dynamic-wind (lambda () (log! 'in%d)) (lambda () %s) (lambda () (log! 'out%d)))" % (u, body, u)
            self.tags.add("wind-" + mode)
            if mode == "before-raise":
                return ("(let ((first #t)) (dynamic-wind (lambda () (log! 'in%d) (if (and first (< nw 3)) (begin (set! first #f) (set! nw (+ nw 1)) (raise 'r1)) (set! first #f))) "
                        "(lambda () %s) (lambda () (log! 'out%d))))" % (u, body, u))
            if mode == "after-raise":
                jump = "(raise 'r2)"
                cond = "(and done (< nw 3))"
            else:
                c = 1 + ch.n(3)
                jump = "(k%d 'from-after%d)" % (c, u)
                cond = "(and done k%d (< nw 3))" % c
            return ("(let ((done #f)) (dynamic-wind (lambda () (set! done #f) (log! 'in%d)) (lambda () (let ((v %s)) (set! done #t) v)) "
                    "(lambda () (log! 'out%d) (if %s (begin (set! done #f) (set! nw (+ nw 1)) %s) 'quiet))))" % (u, body, u, cond, jump))
        if kind == "capture":
            c = 1 + ch.n(3)
            return "(begin (log! (list 'got%d (call/cc (lambda (k) (set! k%d k) %s)))) 'c%d)" % (u, c, self.node(depth - 1, wdepth), u)
        if kind == "invoke":
            c = 1 + ch.n(3)
            return "(if (and k%d (< n%d 2)) (begin (set! n%d (+ n%d 1)) (log! 'invoke%d) (k%d 'v%d)) 'skip%d)" % (c, c, c, c, u, c, u, u)
        if kind == "seq":
            n = 2 + ch.n(2)
            return "(begin %s)" % " ".join(self.node(depth - 1, wdepth) for _ in range(n))
        if kind == "param":
            p = ch.pick(["p1", "p2"])
            return "(parameterize ((%s 'pv%d)) %s)" % (p, u, self.node(depth - 1, wdepth))
        if kind == "show":
            return "(begin (log! (list 'show (p1) (p2))) 's%d)" % u
        if kind == "handler":
            mode = ch.pick(["return", "escape", "reraise", "show"])
            if mode == "return":
                h = "(lambda (e) (log! (list 'h%d (kind e))) 'hret%d)" % (u, u)
            elif mode == "escape":
                c = 1 + ch.n(3)
                h = "(lambda (e) (log! (list 'h%d (kind e))) (if k%d (k%d 'from-handler%d) 'no-k))" % (u, c, c, u)
            elif mode == "show":
                h = "(lambda (e) (log! (list 'h%d (kind e) (p1) (p2))) 'hs%d)" % (u, u)
            else:
                h = "(lambda (e) (log! (list 'h%d (kind e))) (raise-continuable (if (symbol? e) e 'wrapped)))" % u
            return "(with-exception-handler %s (lambda () %s))" % (h, self.node(depth - 1, wdepth))
        if kind == "guard":
            which = ch.pick(["match", "nomatch", "all", "reraise-in-clause"])
            if which == "match":
                cl = "((eq? e 'r1) (log! 'guard%d-r1) 'g%d)" % (u, u)
            elif which == "nomatch":
                cl = "((eq? e 'never) 'never)"
            elif which == "all":
                cl = "(#t (log! (list 'guard%d (kind e))) 'g%d)" % (u, u)
            else:
                cl = "((symbol? e) (log! 'guard%d-reraise) (raise 'r2))" % u
            return "(guard (e %s) %s)" % (cl, self.node(depth - 1, wdepth))
        if kind == "raise":
            return "(begin (log! 'raising%d) (raise '%s))" % (u, ch.pick(["r1", "r2"]))
        if kind == "raisec":
            return "(begin (log! (list 'rc%d (raise-continuable '%s))) 'after-rc%d)" % (u, ch.pick(["r1", "r2"]), u)
        return self.leaf()

    def leaf(self):
        self.uid += 1
        return "(begin (log! 'leaf%d) 'l%d)" % (self.uid, self.uid)


def render(body):
    return HEADER + body + FOOTER


# small systematic family: compositions of the core alphabet up to 3 nodes
def enum_scripts():
    leaf = "(begin (log! 'x) 'x)"

    def wind(b, u):
        return "(dynamic-wind (lambda () (log! 'in%d)) (lambda () %s) (lambda () (log! 'out%d)))" % (u, b, u)

    def cap(b, c):
        return "(begin (log! (list 'got (call/cc (lambda (k) (set! k%d k) %s)))) 'c)" % (c, b)

    def inv(c):
        return "(if (and k%d (< n%d 2)) (begin (set! n%d (+ n%d 1)) (k%d 'v)) 'skip)" % (c, c, c, c, c)

    def hret(b):
        return "(with-exception-handler (lambda (e) (log! (list 'h (kind e))) 'hret) (lambda () %s))" % b

    def guard_all(b):
        return "(guard (e (#t (log! (list 'guard (kind e))) 'g)) %s)" % b

    def guard_none(b):
        return "(guard (e ((eq? e 'never) 'never)) %s)" % b

    def wind_ar(b):
        return ("(let ((done #f)) (dynamic-wind (lambda () (set! done #f) (log! 'in3)) (lambda () (let ((v %s)) (set! done #t) v)) "
                "(lambda () (log! 'out3) (if (and done (< nw 2)) (begin (set! done #f) (set! nw (+ nw 1)) (raise 'r2)) 'quiet))))" % b)

    def par(b):
        return "(parameterize ((p2 'pv)) %s)" % b

    atoms = [leaf, inv(1), "(raise 'r1)", "(begin (log! (list 'rc (raise-continuable 'r1))) 'arc)", "(begin (log! (list 'show (p1) (p2))) 's)"]
    wrappers = [lambda b: wind(b, 1), lambda b: wind(b, 2), lambda b: cap(b, 1), hret, guard_all, guard_none, par, wind_ar]
    level1 = atoms
    level2 = [w(a) for w in wrappers for a in level1]
    level3 = [w(a) for w in wrappers for a in level2]
    seqs = ["(begin %s %s)" % (a, b) for a in level2 for b in atoms + level2[:len(level2):3]]
    seq3 = ["(begin %s %s %s)" % (a, b, c) for a in level2[::2] for b in level2[1::5] for c in atoms[:3]]
    for s in level1 + level2 + level3 + seqs + seq3:
        yield s


_D = None


def driver():
    global _D
    if _D is None:
        _D = Driver("plain", imports=IMPORTS)
    return _D


def crossing(ref_trace_text):
    """non-trivial: an 'out' logged without the body having finished normally, or an 'in' logged twice (re-entry)"""
    import re
    ins = re.findall(r"\bin(\d+)\b", ref_trace_text)
    outs = re.findall(r"\bout(\d+)\b", ref_trace_text)
    if len(ins) != len(set(ins)):
        return True     # some extent entered more than once
    jump = ("invoke" in ref_trace_text or "raising" in ref_trace_text or "from-handler" in ref_trace_text or "top-guard" in ref_trace_text
            or "guard" in ref_trace_text or "(got v)" in ref_trace_text or "h " in ref_trace_text)
    return bool(outs) and jump


def check(text):
    try:
        (kind, val), ref = R.run(text, budget=200000)
    except (R.Budget, R.SchemeError, RecursionError):
        return None, "discard", ""
    if kind != "value":
        return None, "discard", ""
    r = driver().run(text, cpu=10)
    if r.status in ("cpu", "wall"):
        return E.Found("timeout", "chibi did not finish a script the reference model finishes\nreference trace: %s\n%s" % (ref, text)), "ok", ref
    if r.status != "ok":
        return E.Found("crash", "chibi died: %s %s\n%s" % (r.status, r.err[-800:], text)), "ok", ref
    if r.body.strip() != ref.strip():
        return E.Found("trace-differs", "reference: %s\nchibi:     %s\nscript:\n%s" % (ref.strip(), r.body.strip(), text)), "ok", ref
    return None, "ok", ref


def shards(tier, seed, nshards, known):
    return [{"tier": tier, "seed": seed, "shard": i, "nshards": nshards, "known": known} for i in range(nshards)]


def run_shard(spec):
    res = E.ShardResult()
    quick = spec["tier"] != "thorough"
    rng = random.Random(E.subseed(spec["seed"], "C06", spec["shard"]))
    fam = [s for i, s in enumerate(enum_scripts()) if i % spec["nshards"] == spec["shard"]]
    if quick:
        fam = [s for s in fam if rng.random() < 0.25]
    for body in fam:
        text = render(body)
        found, status, ref = check(text)
        if status == "discard":
            res.excluded["reference_discarded"] += 1
            continue
        res.case(body, crossing(ref), cls="enumerated", sample=rng.random() < 0.01)
        if found:
            res.violation({"script": body}, "enum/" + found.signature, found.detail)
    if not quick:
        res.extra["exhaustive_small_scripts"] = True
    last = {}

    def test(data):
        g = ScriptGen(E.HypChooser(data), max_nodes=16)
        body = g.node(5, 0)
        text = render(body)
        found, status, ref = check(text)
        if status == "discard":
            res.excluded["reference_discarded"] += 1
            return
        nt = crossing(ref)
        res.case(body, nt, cls=sorted(g.tags), sample=nt and rng.random() < 0.02)
        if found:
            last["body"] = body
            raise found

    E.hypothesis_search(st.data(), test, E.subseed(spec["seed"], "C06h", spec["shard"]), 1200 if quick else 60000, res,
                        to_case=lambda d: {"script": last.get("body")})
    if _D is not None:
        _D.close()
    return res


def replay(case):
    found, status, ref = check(render(case["script"]))
    if found:
        return {"signature": found.signature, "detail": found.detail, "case": case}
    return None
