"""C17 -- bitwise operations are two's-complement exact on all exact integers.

Every export of (srfi 151) (and the srfi 142 / srfi 33 names that differ) on operand
tuples from the C04 boundary lattice plus seeded random integers; oracle = Python
integers (& | ^ ~ << >> on unbounded two's complement).
"""
import os
import random

from .. import engine as E
from .. import numgen as N
from ..worker import Driver

VARIANTS = ["plain"]
IMPORTS = ["(scheme base)", "(scheme write)", "(only (chibi) fixnum? bignum? ratio? flonum?)", "(srfi 151)",
           "(prefix (only (srfi 33) arithmetic-shift bit-count extract-bit-field "
           "integer-length first-set-bit bitwise-and bitwise-ior bitwise-xor bitwise-not) s33:)"]
PRELUDE = os.path.join(E.VERIF, "harness", "scm", "prelude_num.scm")
RULE = ("case = (operation, operand tuple, route); operands from the C04 boundary lattice (both signs, word boundaries, "
        "all-ones/zero words) plus seeded random integers to 2000 bits, shift counts and field bounds crossing word "
        "multiples; non-trivial iff an operand is a negative bignum, or operand lengths differ by >= 1 word, or a shift "
        "count / field bound is >= 62; distinct by (op, operands, route)")
ASSUMPTIONS = ["Python unbounded integers implement infinite two's complement", "SRFI 151 text is the specification"]
BATCH = 400


def mask(w):
    return (1 << w) - 1


def field(i, s, e):
    return (i >> s) & mask(e - s)


def replace_field(i, v, s, e):
    m = mask(e - s) << s
    return (i & ~m) | ((v << s) & m)


def popcount(i):
    return bin(i).count("1") if i >= 0 else bin(~i).count("1")


def ilength(i):
    return i.bit_length() if i >= 0 else (~i).bit_length()


def first_set(i):
    if i == 0:
        return -1
    return (i & -i).bit_length() - 1


def rotate(i, c, s, e):
    w = e - s
    if w <= 0:
        return i
    c %= w
    f = field(i, s, e)
    f = ((f << c) | (f >> (w - c))) & mask(w)
    return replace_field(i, f, s, e)


def reverse(i, s, e):
    w = e - s
    f = field(i, s, e)
    r = 0
    for k in range(w):
        if (f >> k) & 1:
            r |= 1 << (w - 1 - k)
    return replace_field(i, r, s, e)


def copy_bit(idx, i, b):
    return (i | (1 << idx)) if b else (i & ~(1 << idx))


def bit_swap(a, b, i):
    ba, bb = (i >> a) & 1, (i >> b) & 1
    return copy_bit(b, copy_bit(a, i, bb), ba)


def bits_list(i, n=None):
    if n is None:
        n = i.bit_length()
    return [bool((i >> k) & 1) for k in range(n)]


def shift(i, c):
    return i << c if c >= 0 else i >> (-c)


# name -> (scheme template, domain, oracle)
#   domain letters: Z integer, S shift count, I small index, F field (start,end expands to 2 operands), B boolean,
#   P non-negative integer, L small length
OPS = {
    "bitwise-not": ("(bitwise-not a)", "Z", lambda a: ~a),
    "bitwise-and": ("(bitwise-and a b)", "ZZ", lambda a, b: a & b),
    "bitwise-and3": ("(bitwise-and a b c)", "ZZZ", lambda a, b, c: a & b & c),
    "bitwise-ior": ("(bitwise-ior a b)", "ZZ", lambda a, b: a | b),
    "bitwise-ior3": ("(bitwise-ior a b c)", "ZZZ", lambda a, b, c: a | b | c),
    "bitwise-xor": ("(bitwise-xor a b)", "ZZ", lambda a, b: a ^ b),
    "bitwise-xor3": ("(bitwise-xor a b c)", "ZZZ", lambda a, b, c: a ^ b ^ c),
    "bitwise-eqv": ("(bitwise-eqv a b)", "ZZ", lambda a, b: ~(a ^ b)),
    "bitwise-nand": ("(bitwise-nand a b)", "ZZ", lambda a, b: ~(a & b)),
    "bitwise-nor": ("(bitwise-nor a b)", "ZZ", lambda a, b: ~(a | b)),
    "bitwise-andc1": ("(bitwise-andc1 a b)", "ZZ", lambda a, b: ~a & b),
    "bitwise-andc2": ("(bitwise-andc2 a b)", "ZZ", lambda a, b: a & ~b),
    "bitwise-orc1": ("(bitwise-orc1 a b)", "ZZ", lambda a, b: ~a | b),
    "bitwise-orc2": ("(bitwise-orc2 a b)", "ZZ", lambda a, b: a | ~b),
    "arithmetic-shift": ("(arithmetic-shift a b)", "ZS", shift),
    "bit-count": ("(bit-count a)", "Z", popcount),
    "integer-length": ("(integer-length a)", "Z", ilength),
    "bitwise-if": ("(bitwise-if a b c)", "ZZZ", lambda m, i, j: (m & i) | (~m & j)),
    "bit-set?": ("(bit-set? a b)", "IZ", lambda k, i: bool((i >> k) & 1)),
    "copy-bit#t": ("(copy-bit a b #t)", "IZ", lambda k, i: copy_bit(k, i, True)),
    "copy-bit#f": ("(copy-bit a b #f)", "IZ", lambda k, i: copy_bit(k, i, False)),
    "bit-swap": ("(bit-swap a b c)", "IIZ", bit_swap),
    "any-bit-set?": ("(any-bit-set? a b)", "ZZ", lambda t, i: (t & i) != 0),
    "every-bit-set?": ("(every-bit-set? a b)", "ZZ", lambda t, i: (t & i) == t),
    "first-set-bit": ("(first-set-bit a)", "Z", first_set),
    "bit-field": ("(bit-field a b c)", "ZF", field),
    "bit-field-any?": ("(bit-field-any? a b c)", "ZF", lambda i, s, e: field(i, s, e) != 0),
    "bit-field-every?": ("(bit-field-every? a b c)", "ZF", lambda i, s, e: field(i, s, e) == mask(e - s)),
    "bit-field-clear": ("(bit-field-clear a b c)", "ZF", lambda i, s, e: replace_field(i, 0, s, e)),
    "bit-field-set": ("(bit-field-set a b c)", "ZF", lambda i, s, e: replace_field(i, -1, s, e)),
    "bit-field-replace": ("(bit-field-replace a d b c)", "ZFZ", lambda i, s, e, v: replace_field(i, v, s, e)),
    "bit-field-replace-same": ("(bit-field-replace-same a d b c)", "ZFZ", lambda i, s, e, v: replace_field(i, v >> s, s, e)),
    "bit-field-rotate": ("(bit-field-rotate a d b c)", "ZFR", lambda i, s, e, c: rotate(i, c, s, e)),
    "bit-field-reverse": ("(bit-field-reverse a b c)", "ZF", reverse),
    "bits->list": ("(bits->list a)", "P", lambda i: bits_list(i)),
    "bits->list/len": ("(bits->list a b)", "ZL", lambda i, n: bits_list(i, n)),
    "bits->vector/len": ("(vector->list (bits->vector a b))", "ZL", lambda i, n: bits_list(i, n)),
    "list->bits": ("(list->bits (bits->list a b))", "ZL", lambda i, n: i & mask(n)),
    "vector->bits": ("(vector->bits (bits->vector a b))", "ZL", lambda i, n: i & mask(n)),
    "bitwise-fold": ("(bitwise-fold (lambda (bit acc) (+ (* 2 acc) (if bit 1 0))) 1 a)", "P",
                     lambda i: int("1" + "".join("1" if x else "0" for x in bits_list(i)), 2)),
    # srfi 142 / 33 argument orders
    "s33:arithmetic-shift": ("(s33:arithmetic-shift a b)", "ZS", shift),
    "s33:bit-count": ("(s33:bit-count a)", "Z", popcount),
    "s33:extract-bit-field": ("(s33:extract-bit-field b a c)", "LIZ", None),
    "s33:integer-length": ("(s33:integer-length a)", "Z", ilength),
    "s33:bitwise-and": ("(s33:bitwise-and a b)", "ZZ", lambda a, b: a & b),
    "s33:bitwise-xor": ("(s33:bitwise-xor a b)", "ZZ", lambda a, b: a ^ b),
}
# s33 extract-bit-field size position n
OPS["s33:extract-bit-field"] = ("(s33:extract-bit-field a b c)", "LIZ", lambda size, pos, n: field(n, pos, pos + size))
OPNAMES = sorted(OPS)
# operations the lattice-pair sweep covers
LATTICE_OPS = ["bitwise-and", "bitwise-ior", "bitwise-xor", "bitwise-eqv", "bitwise-andc1", "bitwise-orc2", "any-bit-set?", "every-bit-set?"]
SHIFTS = [0, 1, -1, 2, -2, 31, 32, 33, 61, 62, 63, 64, 65, -61, -62, -63, -64, -65, 127, 128, 129, -127, -128, -129,
          191, 192, 193, -191, -192, -193, 255, 256, -256, 1000, -1000, 4000, -4000]
IDX = [0, 1, 2, 30, 31, 32, 33, 60, 61, 62, 63, 64, 65, 126, 127, 128, 129, 191, 192, 200, 255, 256, 257, 400]


def lit(x):
    if isinstance(x, bool):
        return "#t" if x else "#f"
    if isinstance(x, list):
        return "(" + " ".join(lit(y) for y in x) + ")"
    return str(x)


def expected(case):
    tmpl, dom, f = OPS[case["op"]]
    args = [int(a) for a in case["args"]]
    return [f(*args)]


def render(i, case):
    tmpl, dom, f = OPS[case["op"]]
    args = case["args"]
    names = "abcd"
    exp = expected(case)
    sets = " ".join("(set! %s %s)" % (names[k], a) for k, a in enumerate(args))
    expr = tmpl
    if case["route"] == "l":
        # literal operands (constant folding route)
        for k in range(len(args) - 1, -1, -1):
            expr = expr.replace(" %s " % names[k], " %s " % args[k]).replace(" %s)" % names[k], " %s)" % args[k])
    el = "(" + " ".join(lit(x) for x in exp) + ")"
    return "(vcase %d (lambda () %s (list %s)) '%s)\n" % (i, sets, expr, el)


def judge(case, line):
    exp = expected(case)
    parts = line.split("|")
    if parts[0] == "ERR":
        return "unexpected error; expected %s" % lit(exp[0])[:200]
    if len(parts) != 4:
        return "malformed output %r" % line[:200]
    vals, classes, flags, echo = parts
    want = lit(exp[0])
    if vals.strip() != want:
        return "values %s, expected %s" % (vals.strip()[:400], want[:400])
    if not isinstance(exp[0], (bool, list)):
        wc = N.num_class(exp[0])
        if classes != wc:
            return "representation class %r, expected %r (non-canonical result)" % (classes, wc)
    if flags != "T":
        return "eqv?/equal? to expected literal failed: %r" % flags
    if case["route"] != "l":
        ech = echo.split()
        for k, a in enumerate(case["args"][:3]):
            if k < len(ech) and ech[k] != a:
                return "operand %s changed by the operation: was %s, now %s" % ("abc"[k], a, ech[k])
    return None


def sig(case, why):
    if why.startswith("operand"):
        kind = "operand-changed"
    elif why.startswith("values"):
        kind = "wrong-value"
    elif why.startswith("representation"):
        kind = "non-canonical"
    elif why.startswith("eqv?"):
        kind = "not-eqv"
    elif why.startswith("unexpected error"):
        kind = "unexpected-error"
    else:
        kind = "malformed"
    return "%s/%s" % (case["op"], kind)


def nontrivial(case):
    tmpl, dom, f = OPS[case["op"]]
    args = [int(a) for a in case["args"]]
    ints = [a for a, k in zip(args, expand_dom(dom)) if k in "ZP"]
    if any(a < N.FIX_MIN for a in ints):
        return True
    if len(ints) >= 2 and max(abs(a).bit_length() for a in ints) // 64 != min(abs(a).bit_length() for a in ints) // 64:
        return True
    small = [a for a, k in zip(args, expand_dom(dom)) if k in "SIseRL"]
    return any(abs(a) >= 62 for a in small)


def expand_dom(dom):
    out = []
    for k in dom:
        if k == "F":
            out += ["s", "e"]
        else:
            out.append(k)
    return out


_LAT = None


def lat():
    global _LAT
    if _LAT is None:
        _LAT = N.lattice()
    return _LAT


def gen_int(rng):
    L = lat()
    return L[rng.randrange(len(L))] if rng.random() < 0.55 else N.rand_int(rng, 2000)


def gen_case(rng, op=None):
    op = op or rng.choice(OPNAMES)
    tmpl, dom, f = OPS[op]
    args = []
    for k in dom:
        if k == "Z":
            args.append(gen_int(rng))
        elif k == "P":
            args.append(abs(gen_int(rng)))
        elif k == "S":
            args.append(rng.choice(SHIFTS) if rng.random() < 0.7 else rng.randrange(-700, 700))
        elif k == "I":
            args.append(rng.choice(IDX) if rng.random() < 0.7 else rng.randrange(0, 500))
        elif k == "L":
            args.append(rng.choice(IDX) if rng.random() < 0.6 else rng.randrange(0, 300))
        elif k == "F":
            s = rng.choice(IDX) if rng.random() < 0.7 else rng.randrange(0, 300)
            w = rng.choice([0, 1, 2, 31, 32, 33, 62, 63, 64, 65, 128, 129, rng.randrange(0, 200)])
            if op == "bit-field-rotate" and w == 0:
                w = 1       # rotating an empty field divides by zero in the SRFI's own reference code: not in the domain
            args += [s, s + w]
        elif k == "R":
            w = max(args[-1] - args[-2], 1)
            args.append(rng.choice([0, 1, w - 1, w, w + 1, 2 * w + 3, rng.randrange(0, 3 * w + 1)]))
    if op == "arithmetic-shift" or op == "s33:arithmetic-shift":
        # keep results below ~10k bits
        if args[1] > 4000:
            args[1] = 4000
    route = "l" if rng.random() < 0.25 and not any(x in tmpl for x in ("lambda", "->")) else "v"
    return {"op": op, "args": [str(a) for a in args], "route": route}


def lattice_pairs(op, shard, nshards, limit, rng):
    L = lat()
    n = len(L)
    total = n * n
    idxs = range(shard, total, nshards)
    if limit and len(idxs) > limit:
        idxs = rng.sample(idxs, limit)
    for ix in idxs:
        yield {"op": op, "args": [str(L[ix // n]), str(L[ix % n])], "route": "v" if ix % 4 else "l"}


def lattice_shifts(shard, nshards):
    L = lat()
    k = 0
    for x in L:
        for c in SHIFTS:
            if abs(c) > 300 and abs(x) > 2 ** 70:
                continue
            k += 1
            if k % nshards == shard:
                yield {"op": "arithmetic-shift", "args": [str(x), str(c)], "route": "v"}
        for op in ("bitwise-not", "bit-count", "integer-length", "first-set-bit"):
            k += 1
            if k % nshards == shard:
                yield {"op": op, "args": [str(x)], "route": "v"}


def shards(tier, seed, nshards, known):
    return [{"tier": tier, "seed": seed, "shard": i, "nshards": nshards, "known": known} for i in range(nshards)]


def make_driver():
    return Driver("plain", imports=IMPORTS, prelude=PRELUDE)


def run_cases(d, cases, res):
    for off in range(0, len(cases), BATCH):
        chunk = cases[off:off + BATCH]
        prog = "".join(render(i, c) for i, c in enumerate(chunk))
        r = d.run(prog, cpu=120)
        lines = {}
        for ln in r.body.split("\n"):
            k, _, rest = ln.partition("|")
            if k.isdigit():
                lines[int(k)] = rest
        for i, c in enumerate(chunk):
            res.case(c, nontrivial(c), cls=["op:" + c["op"], "route:" + c["route"]])
            if i not in lines:
                if r.status in ("cpu", "wall"):
                    res.inconclusive += 1
                    continue
                v = replay(c, d)
                if v:
                    res.violation(c, v["signature"], v["detail"])
                continue
            why = judge(c, lines[i])
            if why:
                res.violation(c, sig(c, why), why + "\ncase=%r" % c)


def run_shard(spec):
    res = E.ShardResult()
    rng = random.Random(E.subseed(spec["seed"], "C17", spec["shard"]))
    d = make_driver()
    quick = spec["tier"] != "thorough"
    cases = list(lattice_shifts(spec["shard"], spec["nshards"]))
    for op in LATTICE_OPS:
        cases.extend(lattice_pairs(op, spec["shard"], spec["nshards"], 2500 if quick else None, rng))
    for _ in range(20000 if quick else 500000):
        cases.append(gen_case(rng))
    for off in range(0, len(cases), 20000):
        run_cases(d, cases[off:off + 20000], res)
    if not quick:
        res.extra["exhaustive_lattice_pairs"] = True
    d.close()
    return res


_D = None


def replay(case, d=None):
    global _D
    if d is None:
        if _D is None:
            _D = make_driver()
        d = _D
    r = d.run(render(0, case), cpu=60)
    if r.status != "ok":
        return {"signature": "%s/%s" % (case["op"], r.status),
                "detail": "status=%s %s" % (r.status, r.err[-500:] or r.out[-300:]), "case": case}
    for ln in r.body.split("\n"):
        if ln.startswith("0|"):
            why = judge(case, ln[2:])
            if why:
                return {"signature": sig(case, why), "detail": "%s\ncase=%r" % (why, case), "case": case}
            return None
    return {"signature": "%s/no-output" % case["op"], "detail": "no result line; out=%r" % r.out[-500:], "case": case}
