"""C12 -- strings are sequences of Unicode scalar values whatever the byte encoding.

Model-based stateful test: histories (<= 40 operations) over several named strings are
rendered as a Scheme program that prints, after every step, the step's result and for
every string its length, its list of code points and its UTF-8 bytes; the model is a
Python list of code points per string.  Plus the exhaustive sweep of every scalar value
through char -> string -> utf8 -> string -> char against Python's UTF-8 encoder.
"""
import os
import random
import re

from hypothesis import strategies as st

from .. import engine as E
from ..worker import Driver

VARIANTS = ["plain", "asan"]
IMPORTS = ["(scheme base)", "(scheme write)", "(scheme char)",
           "(only (chibi) string-cursor-start string-cursor-end string-cursor-next string-cursor-prev string-cursor-ref string-cursor->index string-index->cursor string-cursor<? substring-cursor)"]
RULE = ("case = operation history (<= 40 steps) over 4 named strings mixing 1/2/3/4-byte scalar values: make-string, string, "
        "string-copy (ranges), substring, string-append, string-set! with every old-width x new-width at first/middle/last "
        "index, string-fill! (ranges), string-copy! incl. overlapping self copies in both directions, list/vector/utf8 "
        "conversions with ranges, string-map/for-each, comparisons, input and output string ports, cursor walks; after every "
        "step every string is observed (length, code points, UTF-8 bytes); non-trivial iff the history has a width-changing "
        "string-set! or an overlapping self string-copy! on a string holding a multi-byte character, followed by a later "
        "observation; distinct by history digest")
ASSUMPTIONS = ["Python's UTF-8 codec is the reference encoder", "string-set! on literal strings is 'an error' and not generated"]

PRELUDE = r"""
(define (cps s) (map char->integer (string->list s)))
(define (u8s s) (let ((b (string->utf8 s))) (let lp ((i (- (bytevector-length b) 1)) (acc '())) (if (< i 0) acc (lp (- i 1) (cons (bytevector-u8-ref b i) acc))))))
(define (obs name s) (write-string " ") (write name) (write-string "=") (write (list (string-length s) (cps s) (u8s s))))
(define (walk s)
  (let lp ((c (string-cursor-start s)) (acc '()))
    (if (string-cursor<? c (string-cursor-end s))
        (lp (string-cursor-next s c) (cons (char->integer (string-cursor-ref s c)) acc))
        (reverse acc))))
(define (back-and-forth s k)
  (let lp ((c (string-cursor-start s)) (i 0))
    (if (< i k)
        (lp (string-cursor-prev s c) (+ i 1))
        (let lp2 ((c c) (i 0))
          (if (< i k) (lp2 (string-cursor-next s c) (+ i 1)) (string-cursor->index s c))))))
(define (walk-back s)
  (let lp ((c (string-cursor-end s)) (acc '()))
    (if (string-cursor<? (string-cursor-start s) c)
        (let ((p (string-cursor-prev s c))) (lp p (cons (char->integer (string-cursor-ref s p)) acc)))
        acc)))
(define (val x)
  (cond ((string? x) (list 'str (cps x)))
        ((char? x) (list 'chr (char->integer x)))
        ((eof-object? x) 'eof)
        ((pair? x) (map val x))
        ((vector? x) (list 'vec (map val (vector->list x))))
        ((bytevector? x) (list 'bv (let lp ((i (- (bytevector-length x) 1)) (acc '())) (if (< i 0) acc (lp (- i 1) (cons (bytevector-u8-ref x i) acc))))))
        (else x)))
"""

CHARS = [0x61, 0x7A, 0x41, 0x30, 0x20, 0x7F, 0x80, 0xE9, 0x3BB, 0x7FF, 0x800, 0x4E16, 0xFFFD, 0xFFFF, 0x10000, 0x1F600, 0x10FFFF]
NAMES = ["s0", "s1", "s2", "s3"]


def width(cp):
    return 1 if cp < 0x80 else 2 if cp < 0x800 else 3 if cp < 0x10000 else 4


def chr_lit(cp):
    return "(integer->char %d)" % cp


def str_lit(cps):
    return "(string %s)" % " ".join(chr_lit(c) for c in cps) if cps else "(string)"


class Hist(object):
    """generates a history together with the model's expected observations"""

    def __init__(self, ch):
        self.ch = ch
        self.model = {}
        self.lines = []
        self.expect = []
        self.tags = set()
        self.multibyte_mutated = False

    def rand_cps(self, maxlen=6):
        return [self.ch.pick(CHARS) for _ in range(self.ch.n(maxlen + 1))]

    def idx(self, n, allow_end=True):
        if n == 0:
            return 0
        return self.ch.pick([0, n - 1, n // 2, n] if allow_end else [0, n - 1, n // 2])

    def rng2(self, n):
        a = self.idx(n)
        b = self.idx(n)
        return (a, b) if a <= b else (b, a)

    def step(self, i):
        ch = self.ch
        live = [n for n in NAMES if n in self.model]
        if len(live) < 2 or ch.p(0.12):
            kind = "new"
        else:
            kind = ch.pick(["set", "set", "set", "fill", "copy!", "copy!", "append", "copy", "substring", "list", "vector", "utf8",
                            "map", "compare", "iport", "oport", "walk", "set", "cursor-index", "upcase", "foreach", "before-start"])
        self.tags.add(kind)
        res_expr = "'none"
        res_val = "none"
        if kind == "new":
            name = ch.pick(NAMES)
            how = ch.n(3)
            if how == 0:
                n, c = ch.pick([0, 1, 2, 3, 4, 5, 6, 70, 130]), ch.pick(CHARS)
                expr = "(make-string %d %s)" % (n, chr_lit(c))
                self.model[name] = [c] * n
            elif how == 1:
                cps = self.rand_cps()
                expr = str_lit(cps)
                self.model[name] = list(cps)
            else:
                cps = self.rand_cps()
                expr = "(list->string (list %s))" % " ".join(chr_lit(c) for c in cps)
                self.model[name] = list(cps)
            stmt = "(define %s %s)" % (name, expr) if name not in self.defined else "(set! %s %s)" % (name, expr)
            self.defined.add(name)
        else:
            s = ch.pick(live)
            m = self.model[s]
            n = len(m)
            stmt = "#f"
            if kind == "set" and n > 0:
                i_ = self.idx(n, allow_end=False)
                c = ch.pick(CHARS)
                if width(c) != width(m[i_]):
                    self.tags.add("width-change-%d-%d" % (width(m[i_]), width(c)))
                    if any(x >= 0x80 for x in m) or c >= 0x80:
                        self.multibyte_mutated = True
                stmt = "(string-set! %s %d %s)" % (s, i_, chr_lit(c))
                m[i_] = c
            elif kind == "fill":
                c = ch.pick(CHARS)
                if ch.p(0.5):
                    stmt = "(string-fill! %s %s)" % (s, chr_lit(c))
                    m[:] = [c] * n
                else:
                    a, b = self.rng2(n)
                    stmt = "(string-fill! %s %s %d %d)" % (s, chr_lit(c), a, b)
                    m[a:b] = [c] * (b - a)
            elif kind == "copy!":
                src = ch.pick(live) if ch.p(0.5) else s
                ms = self.model[src]
                a, b = self.rng2(len(ms))
                room = n - (b - a)
                if room >= 0:
                    at = ch.pick([0, room, room // 2])
                    stmt = "(string-copy! %s %d %s %d %d)" % (s, at, src, a, b)
                    seg = list(ms[a:b])
                    if src == s and b - a > 0 and at != a:
                        self.tags.add("overlap-up" if at > a else "overlap-down")
                        if any(x >= 0x80 for x in m):
                            self.multibyte_mutated = True
                    m[at:at + len(seg)] = seg
            elif kind == "append":
                t = ch.pick(NAMES)
                other = ch.pick(live)
                self.model[t] = list(m) + list(self.model[other])
                stmt = ("(define %s (string-append %s %s))" if t not in self.defined else "(set! %s (string-append %s %s))") % (t, s, other)
                self.defined.add(t)
            elif kind in ("copy", "substring"):
                t = ch.pick(NAMES)
                a, b = self.rng2(n)
                fn = "string-copy" if kind == "copy" else "substring"
                new = list(m[a:b])
                stmt = ("(define %s (%s %s %d %d))" if t not in self.defined else "(set! %s (%s %s %d %d))") % (t, fn, s, a, b)
                self.model[t] = new
                self.defined.add(t)
            elif kind == "list":
                a, b = self.rng2(n)
                res_expr = "(val (list (string->list %s %d %d) (list->string (string->list %s))))" % (s, a, b, s)
                res_val = "(%s (str %s))" % (lst(["(chr %d)" % c for c in m[a:b]]), lst(m))
            elif kind == "vector":
                a, b = self.rng2(n)
                res_expr = "(val (list (string->vector %s %d %d) (vector->string (string->vector %s) %d %d)))" % (s, a, b, s, a, b)
                res_val = "((vec %s) (str %s))" % (lst(["(chr %d)" % c for c in m[a:b]]), lst(m[a:b]))
            elif kind == "utf8":
                a, b = self.rng2(n)
                enc = "".join(chr(c) for c in m[a:b]).encode("utf-8")
                res_expr = "(val (list (string->utf8 %s %d %d) (utf8->string (string->utf8 %s) 0 %d)))" % (s, a, b, s, len("".join(chr(c) for c in m[:a]).encode("utf-8")))
                res_val = "((bv %s) (str %s))" % (lst(list(enc)), lst(m[:a]))
            elif kind == "map":
                res_expr = "(val (string-map (lambda (c) (if (char=? c #\\a) #\\x3bb c)) %s))" % s
                res_val = "(str %s)" % lst([0x3BB if c == 0x61 else c for c in m])
            elif kind == "foreach":
                res_expr = "(let ((acc '())) (string-for-each (lambda (c) (set! acc (cons (char->integer c) acc))) %s) (reverse acc))" % s
                res_val = lst(m)
            elif kind == "upcase":
                res_expr = "(val (list (string-upcase (string-copy %s)) (string-length %s)))" % (s, s)
                res_val = None      # only ASCII letters are modelled; checked structurally below
                up = []
                ok = True
                for c in m:
                    if 0x61 <= c <= 0x7A:
                        up.append(c - 32)
                    elif c < 0x80 or c in (0x4E16, 0xFFFD, 0xFFFF, 0x10000, 0x1F600, 0x10FFFF, 0x800, 0x7FF, 0x80):
                        up.append(c)
                    elif c == 0xE9:
                        up.append(0xC9)
                    elif c == 0x3BB:
                        up.append(0x39B)
                    else:
                        ok = False
                res_val = "((str %s) %d)" % (lst(up), n) if ok else None
                if not ok:
                    res_expr = "'none"
                    res_val = "none"
            elif kind == "compare":
                o = ch.pick(live)
                mo = self.model[o]
                res_expr = "(list (string<? %s %s) (string=? %s %s) (string>? %s %s) (string<=? %s %s))" % (s, o, s, o, s, o, s, o)
                res_val = "(%s %s %s %s)" % tuple("#t" if x else "#f" for x in (m < mo, m == mo, m > mo, m <= mo))
            elif kind == "iport":
                k = ch.n(4)
                res_expr = "(val (let ((p (open-input-string %s))) (let* ((a (read-char p)) (b (peek-char p)) (c (read-string %d p)) (d (read-line p))) (list a b c d))))" % (s, k)
                q = list(m)
                a = q.pop(0) if q else None
                b = q[0] if q else None
                if k == 0:
                    c_ = []
                else:
                    c_ = q[:k] if q else None
                    q = q[k:]
                if q:
                    if 10 in q:
                        j = q.index(10)
                        d = q[:j]
                    else:
                        d = q
                else:
                    d = None

                def f(x, kind_):
                    if x is None:
                        return "eof"
                    return "(chr %d)" % x if kind_ == "c" else "(str %s)" % lst(x)
                res_val = "(%s %s %s %s)" % (f(a, "c"), f(b, "c"), f(c_, "s"), f(d, "s"))
            elif kind == "oport":
                o = ch.pick(live)
                c = ch.pick(CHARS)
                res_expr = "(val (let ((p (open-output-string))) (write-string %s p) (write-char %s p) (write-string %s p) (get-output-string p)))" % (s, chr_lit(c), o)
                res_val = "(str %s)" % lst(m + [c] + self.model[o])
            elif kind == "before-start":
                # library code ((chibi string) string-suffix?, string-cursor-back) steps back past the start and compares:
                # k steps back from the start and k steps forward are the start again, and the walk from there is the string
                k_ = 1 + self.ch.n(3)
                res_expr = "(list (back-and-forth %s %d) (walk %s))" % (s, k_, s)
                res_val = "(0 %s)" % lst(m)
            elif kind == "walk":
                res_expr = "(list (walk %s) (walk-back %s))" % (s, s)
                res_val = "(%s %s)" % (lst(m), lst(m))
            elif kind == "cursor-index":
                i_ = self.idx(n)
                res_expr = "(list (string-cursor->index %s (string-index->cursor %s %d)) (val (substring-cursor %s (string-index->cursor %s %d) (string-cursor-end %s))))" % (s, s, i_, s, s, i_, s)
                res_val = "(%d (str %s))" % (i_, lst(m[i_:]))
        obs = " ".join("(obs '%s %s)" % (n_, n_) for n_ in NAMES if n_ in self.model)
        self.lines.append("%s\n(write-string \"@%d \") (write %s) %s (newline)" % (stmt, i, res_expr, obs))
        exp_obs = " ".join("%s=(%d %s %s)" % (n_, len(self.model[n_]), lst(self.model[n_]), lst(list("".join(chr(c) for c in self.model[n_]).encode("utf-8"))))
                           for n_ in NAMES if n_ in self.model)
        self.expect.append("@%d %s %s" % (i, res_val, exp_obs))

    def generate(self):
        self.defined = set()
        for i in range(4 + self.ch.n(37)):
            self.step(i)
        return "\n".join(self.lines) + "\n"


def lst(xs):
    return "(" + " ".join(str(x) for x in xs) + ")"


_DRV = {}


def driver(variant):
    if variant not in _DRV:
        import tempfile, os
        f = tempfile.NamedTemporaryFile("w", suffix=".scm", delete=False, dir="/var/tmp")
        f.write(PRELUDE)
        f.close()
        try:
            _DRV[variant] = Driver(variant, imports=IMPORTS, prelude=f.name)
        finally:
            os.unlink(f.name)
    return _DRV[variant]


def norm(s):
    return re.sub(r"\s+", " ", s.strip())


def check(program, expect, variant):
    r = driver(variant).run(program, cpu=20, poison=1 if variant == "asan" else 0, check=1, finalgc=1)
    if r.status in ("cpu", "wall"):
        return None, "inconclusive"
    if r.status != "ok":
        return E.Found("crash/" + (r.sanitizer_summary()[:100] if r.err else str(r.code)), "history died: %s\n%s\nprogram:\n%s" % (r.status, r.err[-1500:], program)), "ok"
    if r.end.get("check_fail"):
        return E.Found("heap-check/" + r.end["msg"].split(" at ")[0], "%s\nprogram:\n%s" % (r.end["msg"], program)), "ok"
    got = [norm(l) for l in r.body.split("\n") if l.startswith("@")]
    for i, want in enumerate(expect):
        want = norm(want)
        if i >= len(got):
            err = [l for l in r.body.split("\n") if "#!ERR" in l or "ERROR" in l][:2]
            return E.Found("step-missing", "step %d produced no observation (error? %r)\nexpected: %s\nprogram:\n%s" % (i, err, want, program)), "ok"
        if got[i] != want:
            w_parts, g_parts = want.split(" ", 2), got[i].split(" ", 2)
            what = "result" if len(w_parts) > 1 and len(g_parts) > 1 and w_parts[1] != g_parts[1] and not want.startswith(g_parts[0] + " " + g_parts[1]) else "contents"
            op = re.findall(r"\((string-[a-z!>-]+|make-string|substring|utf8->string|list->string|vector->string|open-input-string|walk|string)\b", program.split("\n")[2 * i] + program.split("\n")[2 * i + 1])
            return E.Found("model-mismatch/%s" % (op[0] if op else "step"), "step %d differs\nexpected: %s\ngot:      %s\nprogram:\n%s" % (i, want, got[i], program)), "ok"
    return None, "ok"


def sweep_block(d, lo, hi):
    prog = ("(let lp ((cp %d) (acc '()))\n  (if (< cp %d)\n      (if (and (>= cp #xD800) (<= cp #xDFFF)) (lp (+ cp 1) acc)\n"
            "          (let* ((s (string (integer->char cp))) (b (string->utf8 s)) (s2 (utf8->string b)) (c2 (string-ref s2 0)))\n"
            "            (if (and (= (string-length s) 1) (= (string-length s2) 1) (= (char->integer c2) cp)) (lp (+ cp 1) (cons (u8s s) acc)) (begin (write (list 'bad cp)) (lp (+ cp 1) acc)))))\n"
            "      (begin (write-string \"@B \") (write (apply append (reverse acc))) (newline))))\n" % (lo, hi))
    r = d.run(prog, cpu=300)
    if r.status != "ok":
        return "block %x: %s %s" % (lo, r.status, r.err[-300:])
    m = re.search(r"^@B \(([0-9 ]*)\)$", r.body, re.M)
    if "(bad " in r.body or not m:
        return "block %x: %s" % (lo, r.body[:300])
    want = "".join(chr(c) for c in range(lo, hi) if not (0xD800 <= c <= 0xDFFF)).encode("utf-8")
    got = bytes(int(x) for x in m.group(1).split())
    if got != want:
        for i, (a, b) in enumerate(zip(got, want)):
            if a != b:
                break
        return "block %x: UTF-8 bytes differ from Python's encoder at byte %d" % (lo, i)
    return None


# ---------------------------------------------------------------------------
# text read back from file and descriptor ports: multi-byte characters straddling the ports' buffer boundaries

_FDRV = {}


def file_driver(variant):
    if variant not in _FDRV:
        _FDRV[variant] = Driver(variant, imports=["(scheme base)", "(scheme write)", "(scheme file)", "(chibi filesystem)"])
    return _FDRV[variant]


def port_chunk_program(case):
    cps = " ".join(str(c) for c in case["chars"])
    return """(define path "%(path)s")
(define s (string-append (make-string %(pre)d #\\a) (list->string (map integer->char '(%(cps)s))) (make-string %(post)d #\\z)))
(call-with-output-file path (lambda (o) (write-string s o)))
(define (first-diff a b) (let lp ((i 0)) (cond ((and (= i (string-length a)) (= i (string-length b))) #t) ((or (= i (string-length a)) (= i (string-length b))) (list 'length (string-length a) (string-length b))) ((eqv? (string-ref a i) (string-ref b i)) (lp (+ i 1))) (else (list 'index i (char->integer (string-ref a i)) (char->integer (string-ref b i)))))))
(define (slurp-peek p) (let lp ((acc '())) (let ((c (peek-char p))) (if (eof-object? c) (begin (close-port p) (list->string (reverse acc))) (let ((d (read-char p))) (lp (cons (if (eqv? c d) d #\\!) acc)))))))
(define (slurp-read p) (let lp ((acc '())) (let ((c (read-char p))) (if (eof-object? c) (begin (close-port p) (list->string (reverse acc))) (lp (cons c acc))))))
(define (slurp-string p n) (let lp ((acc '())) (let ((c (read-string n p))) (if (eof-object? c) (begin (close-port p) (apply string-append (reverse acc))) (lp (cons c acc))))))
(define (try thunk) (guard (e (#t (list 'error (if (error-object? e) (error-object-message e) e)))) (first-diff (thunk) s)))
(write (list (try (lambda () (slurp-peek (open-input-file path))))
             (try (lambda () (slurp-read (open-input-file path))))
             (try (lambda () (slurp-string (open-input-file path) %(n)d)))
             (try (lambda () (slurp-peek (open-input-file-descriptor (open path open/read)))))
             (try (lambda () (slurp-string (open-input-file-descriptor (open path open/read)) %(n)d)))
             %(readline)s))
(newline)
(delete-file path)
""" % {"path": case["path"], "pre": case["pre"], "cps": cps, "post": case["post"], "n": case["n"],
       # read-line may stop at its documented limit (8192), but what it returns is a prefix of the line made of whole characters
       "readline": ("(guard (e (#t (list 'error (if (error-object? e) (error-object-message e) e)))) (let* ((l (read-line (open-input-file path))) (k (string-length l))) "
                    "(if (and (<= k (string-length s)) (or (= k (string-length s)) (>= k 2000)) (string=? l (substring s 0 k))) #t (list 'read-line-not-a-prefix k))))")
                   if case.get("readline", True) else "#t"}


def check_port_chunk(case, variant):
    prog = port_chunk_program(case)
    r = file_driver(variant).run(prog, cpu=30, poison=1 if variant == "asan" else 0)
    try:
        os.unlink(case["path"])
    except OSError:
        pass
    if r.status in ("cpu", "wall"):
        return None, "inconclusive"
    if r.status != "ok":
        return E.Found("crash/port-chunk", "%s %s\n%s" % (r.status, r.err[-800:], prog)), "ok"
    if r.body.strip() != "(#t #t #t #t #t #t)":
        return E.Found("port-chunk/text-read-back-differs", "text of %d + %d + %d characters (code points %r in the middle) written to a file and read back: %s\n(peek+read, read-char, read-string on a file port; peek+read, read-string on a descriptor port; read-line)\n%s"
                       % (case["pre"], len(case["chars"]), case["post"], case["chars"], r.body.strip()[:400], prog)), "ok"
    return None, "ok"


def gen_port_chunk(rng, idx):
    base = rng.choice([4092, 4092, 4096, 8184, 8192, 1024, 128, 12276])
    pre = max(0, base - rng.randrange(0, 6))
    chars = [rng.choice([0xE9, 0x3BB, 0x7FF, 0x800, 0x20AC, 0xFFFD, 0x10000, 0x1F600, 0x10FFFF, 0x61]) for _ in range(rng.choice([1, 2, 3, 6]))]
    return {"port_chunk": True, "path": "/var/tmp/c12-%d-%d.txt" % (os.getpid(), idx), "pre": pre, "chars": chars, "post": rng.choice([0, 1, 5, 5000]),
            "n": rng.choice([1, 7, 1000, 4096, 5000]), "readline": True}


def readline_cut_possible(case):
    """the text is longer than read-line's 8191-byte buffer and a multi-byte character may sit on that boundary"""
    nbytes = case["pre"] + sum(len(chr(c).encode("utf-8")) for c in case["chars"]) + case["post"]
    return nbytes >= 8191 and case["pre"] <= 8191 and any(c > 127 for c in case["chars"])


def shards(tier, seed, nshards, known):
    return [{"tier": tier, "seed": seed, "shard": i, "nshards": nshards, "known": known} for i in range(nshards)]


def run_shard(spec):
    res = E.ShardResult()
    quick = spec["tier"] != "thorough"
    rng = random.Random(E.subseed(spec["seed"], "C12", spec["shard"]))
    variant = "asan" if spec["shard"] % 4 == 0 else "plain"
    d = driver(variant)
    blocks = [b for b in range(0, 0x110000, 4096) if (b // 4096) % spec["nshards"] == spec["shard"]]
    if quick:
        blocks = [b for b in blocks if b in (0, 0x1000, 0xD000, 0xF000, 0x10000, 0x10F000) or rng.random() < 0.15]
    for b in blocks:
        why = sweep_block(d, b, b + 4096)
        res.case({"sweep_block": b}, b > 0, cls="sweep")
        res.extra["scalar_values_swept"] = res.extra.get("scalar_values_swept", 0) + 4096
        if why:
            res.violation({"sweep_block": b}, "sweep/utf8", why)
    if not quick:
        res.extra["exhaustive_scalar_sweep"] = True
    last = {}

    def test(data):
        h = Hist(E.HypChooser(data))
        prog = h.generate()
        found, status = check(prog, h.expect, variant)
        if status == "inconclusive":
            res.inconclusive += 1
            return
        res.case({"program": prog}, h.multibyte_mutated, cls=sorted(h.tags), sample=h.multibyte_mutated and rng.random() < 0.01)
        if found:
            last["case"] = {"program": prog, "expect": h.expect, "variant": variant}
            raise found

    E.hypothesis_search(st.data(), test, E.subseed(spec["seed"], "C12h", spec["shard"]), (500 if variant == "plain" else 200) if quick else 30000, res,
                        to_case=lambda d_: last.get("case"))
    for i in range(40 if quick else 3000):
        case = gen_port_chunk(rng, i)
        if "KF-C12-read-line-cuts-character" in spec["known"] and readline_cut_possible(case):
            case["readline"] = False
            res.excluded["excluded_by_known_finding:read-line-cuts-character"] += 1
        found, status = check_port_chunk(case, variant)
        if status == "inconclusive":
            res.inconclusive += 1
            continue
        res.case({"pre": case["pre"], "chars": case["chars"], "post": case["post"], "n": case["n"]}, any(c > 127 for c in case["chars"]), cls=["port-chunk"], sample=rng.random() < 0.02)
        if found:
            res.violation(dict(case, variant=variant), found.signature, found.detail)
    for dv in list(_DRV.values()) + list(_FDRV.values()):
        dv.close()
    _DRV.clear()
    _FDRV.clear()
    return res


def matches_finding(v, f):
    c = v.get("case") or {}
    if f.get("id") == "KF-C12-read-line-cuts-character":
        return bool(c.get("port_chunk")) and c.get("readline", True) and readline_cut_possible(c)
    return False


def replay(case):
    if case.get("port_chunk"):
        c = dict(case, path="/var/tmp/c12-%d-replay.txt" % os.getpid())
        found, status = check_port_chunk(c, case.get("variant", "plain"))
        return {"signature": found.signature, "detail": found.detail, "case": case} if found else None
    if "sweep_block" in case:
        why = sweep_block(driver("plain"), case["sweep_block"], case["sweep_block"] + 4096)
        return {"signature": "sweep/utf8", "detail": why, "case": case} if why else None
    found, status = check(case["program"], case["expect"], case.get("variant", "plain"))
    if found:
        return {"signature": found.signature, "detail": found.detail, "case": case}
    return None
