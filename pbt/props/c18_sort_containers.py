"""C18 -- sorting and container libraries conform to their abstract data types.

(i)  Sorts: (srfi 95) sort / sort! / merge / sorted?, (srfi 132) list-sort, list-stable-sort,
     vector-sort(!), vector-stable-sort(!), list-merge, vector-merge, delete-neighbor-dups,
     vector-find-median, vector-select! on inputs of length 0-2000 with heavy duplication,
     adversarial orders and mixed numeric types; every path of qsort.c is generated (built-in
     opcode comparator vs closure, with and without key, list and vector, every length 0-8).
     Oracle: ordered AND a permutation of the input (ids), stable where the SRFI says so.
(ii) Containers: model-based histories for (chibi iset), SRFI 113 sets and bags, SRFI 146
     mappings, SRFI 134 ideques, SRFI 117 list queues, SRFI 101 random-access lists and a
     SRFI 1 / SRFI 133 operation table against Python set / Counter / dict / list models;
     persistent structures keep older versions which are re-queried after later updates.
"""
import collections
import random
import re

from hypothesis import strategies as st

from .. import engine as E
from ..worker import Driver

VARIANTS = ["plain"]
IMPORTS = ["(scheme base)", "(scheme write)", "(srfi 95)", "(prefix (srfi 132) s132:)", "(chibi iset)", "(srfi 113)", "(srfi 128)", "(srfi 146)",
           "(srfi 134)", "(srfi 117)", "(prefix (srfi 101) r:)", "(prefix (srfi 1) l:)", "(prefix (srfi 133) v:)"]
RULE = ("case = (i) a sort call (procedure, list/vector, comparator kind: opcode < / > / closure on keyed pairs / with key argument, "
        "input of length 0..2000 with keys from a small range in random / sorted / reversed / organ-pipe / constant order, mixed "
        "numeric representations) or (ii) a container history (<= 60 operations, persistent versions re-queried); non-trivial iff "
        "(i) the input has >= 2 equal keys and length >= 3, (ii) the history has >= 20 updates and re-queries an older version "
        "after an update; distinct by case digest")
ASSUMPTIONS = ["stability is asserted only for the procedures their SRFI documents as stable (srfi 95 sort/sort!/merge, srfi 132 *-stable-sort, merges)",
               "iteration order is compared only where the SRFI fixes it (mappings / isets: ascending keys)"]

PRELUDE = r"""
(define (pair-less a b) (< (car a) (car b)))
(define (ids l) (map cdr l))
(define (out id x) (write id) (write-string " ") (write x) (newline))
(define-syntax try (syntax-rules () ((_ id e) (out id (guard (x (#t (list 'error (if (error-object? x) (error-object-message x) x)))) e)))))
(define cmp (make-default-comparator))
(define (iset-list s) (iset->list s))
(define (sorted-list l) (sort l <))
"""

# --------------------------------------------------------------------------- sorts

ORDERS = ["random", "sorted", "reversed", "organ", "constant", "few"]


def gen_keys(rng, n, order):
    if order == "constant":
        return [5] * n
    krange = rng.choice([2, 3, 10, max(n, 1), 1000])
    ks = [rng.randrange(krange) for _ in range(n)]
    if rng.random() < 0.25:
        # keys of both signs across the fixnum / bignum boundary (the C fast path compares representations directly)
        scale = rng.choice([10 ** 18, 3 * 10 ** 18 + 1, 10 ** 25, 2 ** 62])
        ks = [(k - krange // 2) * scale + rng.choice([0, 0, 1, -1]) for k in ks]
    if order == "sorted":
        ks.sort()
    elif order == "reversed":
        ks.sort(reverse=True)
    elif order == "organ":
        ks.sort()
        ks = ks[::2] + ks[1::2][::-1]
    return ks


NUMREPS = [lambda k: str(k), lambda k: "%d.0" % k, lambda k: "%d/1" % k if False else str(k), lambda k: "(+ %d 0.)" % k]


def sort_case(rng):
    n = rng.choice([0, 1, 2, 3, 4, 5, 6, 7, 8, 9, 10, 16, 17, 33, 100, rng.randrange(0, 300), rng.randrange(0, 2000) if rng.random() < 0.1 else 12])
    order = rng.choice(ORDERS)
    keys = gen_keys(rng, n, order)
    fn = rng.choice(["sort", "sort", "sort!", "s132:list-sort", "s132:list-stable-sort", "s132:vector-sort", "s132:vector-stable-sort",
                     "s132:vector-sort!", "s132:vector-stable-sort!", "merge", "s132:list-merge", "s132:vector-merge", "sorted?",
                     "s132:list-delete-neighbor-dups", "s132:vector-find-median", "s132:vector-select!"])
    cmpk = rng.choice(["closure", "closure", "opcode<", "opcode>", "key"])
    cont = rng.choice(["list", "vector"])
    wide = any(abs(k) > 10 ** 15 for k in keys)
    return {"kind": "sort", "fn": fn, "cmp": cmpk, "cont": cont, "keys": keys, "mixed": rng.random() < 0.3 and not wide}


def render_sort(case):
    fn, cmpk, cont, keys = case["fn"], case["cmp"], case["cont"], case["keys"]
    n = len(keys)
    mixed = case.get("mixed")
    bare = cmpk in ("opcode<", "opcode>")
    if fn in ("s132:list-sort", "s132:list-stable-sort", "s132:list-merge", "s132:list-delete-neighbor-dups"):
        cont = "list"
    if fn.startswith("s132:vector"):
        cont = "vector"
    # elements: bare numbers for the opcode path (ids cannot be attached: mixed representations distinguish equal keys), pairs otherwise
    if bare:
        def el(i, k):
            return "%d.0" % k if (mixed and i % 3 == 1) else str(k)
        elems = [el(i, k) for i, k in enumerate(keys)]
        less = "<" if cmpk == "opcode<" else ">"
        show = lambda e: e
    else:
        elems = ["(cons %d %d)" % (k, i) for i, k in enumerate(keys)]
        less = "pair-less"
        show = lambda e: e
    mk = lambda es: "(list %s)" % " ".join(es) if cont == "list" else "(vector %s)" % " ".join(es)
    tolist = lambda e: e if cont == "list" else "(vector->list %s)" % e
    if cmpk == "key" and fn in ("sort", "sort!"):
        call = "(%s %s < car)" % (fn, mk(elems))
        return "(ids %s)" % tolist(call) if False else tolist(call), "keyed"
    if fn in ("sort", "sort!"):
        return tolist("(%s %s %s)" % (fn, mk(elems), less)), "plain"
    if fn in ("s132:list-sort", "s132:list-stable-sort", "s132:vector-sort", "s132:vector-stable-sort"):
        return tolist("(%s %s %s)" % (fn, less, mk(elems))), "plain"
    if fn in ("s132:vector-sort!", "s132:vector-stable-sort!"):
        return "(let ((v (vector %s))) (%s %s v) (vector->list v))" % (" ".join(elems), fn, less), "plain"
    if fn in ("merge", "s132:list-merge", "s132:vector-merge"):
        return None, "merge"
    if fn == "sorted?":
        return "(sorted? %s %s)" % (mk(elems), less), "sorted?"
    if fn == "s132:list-delete-neighbor-dups":
        return "(s132:list-delete-neighbor-dups (lambda (a b) (= (car a) (car b))) (list %s))" % " ".join("(cons %d %d)" % (k, i) for i, k in enumerate(keys)), "dedup"
    if fn == "s132:vector-find-median":
        return "(s132:vector-find-median < (vector %s) 'empty)" % " ".join(str(k) for k in keys), "median"
    if fn == "s132:vector-select!":
        return "(if (> %d 0) (s132:vector-select! < (vector %s) %d) 'empty)" % (n, " ".join(str(k) for k in keys), n // 2), "select"
    return None, None


def sort_program(i, case):
    fn, cmpk, keys = case["fn"], case["cmp"], case["keys"]
    expr, mode = render_sort(case)
    if mode == "merge":
        a = sorted((k, i_) for i_, k in enumerate(keys[:len(keys) // 2]))
        b = sorted((k, i_ + 10000) for i_, k in enumerate(keys[len(keys) // 2:]))
        la = " ".join("(cons %d %d)" % x for x in a)
        lb = " ".join("(cons %d %d)" % x for x in b)
        if fn == "merge":
            expr = "(merge (list %s) (list %s) pair-less)" % (la, lb)
        elif fn == "s132:list-merge":
            expr = "(s132:list-merge pair-less (list %s) (list %s))" % (la, lb)
        else:
            expr = "(vector->list (s132:vector-merge pair-less (vector %s) (vector %s)))" % (la, lb)
        case["_merge"] = (a, b)
    return "(try %d %s)" % (i, expr), mode


def parse_result(txt):
    toks = re.findall(r"\(|\)|[^\s()]+", txt)
    pos = [0]

    def rd():
        t = toks[pos[0]]
        pos[0] += 1
        if t == "(":
            out = []
            while toks[pos[0]] != ")":
                out.append(rd())
            pos[0] += 1
            return out
        return t
    return rd()


def judge_sort(case, mode, txt):
    fn, cmpk, keys = case["fn"], case["cmp"], case["keys"]
    try:
        v = parse_result(txt)
    except Exception:
        return "unparsable result %r" % txt[:200]
    if isinstance(v, list) and v and v[0] == "error":
        return "raised: %r" % (v,)
    stable = fn in ("sort", "sort!", "merge", "s132:list-stable-sort", "s132:vector-stable-sort", "s132:vector-stable-sort!", "s132:list-merge", "s132:vector-merge")
    bare = cmpk in ("opcode<", "opcode>")
    if mode in ("plain", "keyed"):
        if bare:
            mixed = case.get("mixed")
            inp = [("%d.0" % k if (mixed and i % 3 == 1) else str(k), k) for i, k in enumerate(keys)]
            exp = sorted(inp, key=lambda t: t[1], reverse=(cmpk == "opcode>"))
            got = v
            if sorted(got) != sorted(t[0] for t in inp):
                return "result is not a permutation of the input: %r" % (got[:30],)
            vals = [int(x) if re.match(r"-?\d+$", x) else float(x) for x in got]
            if any((vals[j] > vals[j + 1]) if cmpk == "opcode<" else (vals[j] < vals[j + 1]) for j in range(len(vals) - 1)):
                return "result is not ordered: %r" % (got[:30],)
            if stable and got != [t[0] for t in exp]:
                return "not stable: equal keys of different representation were reordered: got %r expected %r" % (got[:20], [t[0] for t in exp][:20])
            return None
        # pairs printed as (k . id)
        try:
            got = [(int(p[0]), int(p[2])) for p in v]
        except Exception:
            return "unexpected element shape: %r" % (v[:5],)
        inp = [(k, i) for i, k in enumerate(keys)]
        if sorted(got) != sorted(inp):
            return "result is not a permutation of the input (some element lost, duplicated or invented): %r" % (got[:20],)
        if any(got[j][0] > got[j + 1][0] for j in range(len(got) - 1)):
            return "result is not ordered by key: %r" % (got[:20],)
        if stable and got != sorted(inp, key=lambda t: t[0]):
            return "not stable: %r" % (got[:20],)
        return None
    if mode == "merge":
        a, b = case["_merge"]
        got = [(int(p[0]), int(p[2])) for p in v]
        exp = sorted(a + b, key=lambda t: t[0])     # stable: a's elements first among equals
        if sorted(got) != sorted(a + b):
            return "merge result is not a permutation of both inputs"
        if got != exp:
            return "merge not ordered/stable: got %r expected %r" % (got[:20], exp[:20])
        return None
    if mode == "sorted?":
        if bare:
            want = all((keys[j] <= keys[j + 1]) if cmpk == "opcode<" else (keys[j] >= keys[j + 1]) for j in range(len(keys) - 1))
        else:
            want = all(keys[j] <= keys[j + 1] for j in range(len(keys) - 1))
        if (v == "#t") != want:
            return "sorted? returned %s" % v
        return None
    if mode == "dedup":
        exp = []
        for i, k in enumerate(keys):
            if not exp or exp[-1][0] != k:
                exp.append((k, i))
        got = [(int(p[0]), int(p[2])) for p in v]
        if got != exp:
            return "delete-neighbor-dups: got %r expected %r" % (got[:20], exp[:20])
        return None
    if mode == "median":
        if not keys:
            return None if v == "empty" else "median of empty vector: %r" % v
        s = sorted(keys)
        n = len(s)
        want = s[n // 2] if n % 2 else (s[n // 2 - 1] + s[n // 2]) / 2.0
        try:
            gotv = float(eval(v.replace("/", "/1.0/") if "/" in v else v))
        except Exception:
            return "median unparsable %r" % v
        if abs(gotv - want) > 1e-9 * max(1.0, abs(want)):
            return "median %r, expected %r" % (v, want)
        return None
    if mode == "select":
        if not keys:
            return None
        if (int(v) if re.match(r"-?\d+$", v) else int(float(v))) != sorted(keys)[len(keys) // 2]:
            return "select!: got %s expected %d" % (v, sorted(keys)[len(keys) // 2])
        return None
    return None


# --------------------------------------------------------------------------- containers (model based)

class Hist(object):
    """one history on one container library; self.lines / self.expect are parallel"""

    def __init__(self, ch, lib):
        self.ch = ch
        self.lib = lib
        self.lines = []
        self.expect = []
        self.updates = 0
        self.requery_old = False
        self.step = 0

    def emit(self, expr, want):
        self.lines.append("(try %d %s)" % (self.step, expr))
        self.expect.append(want)
        self.step += 1

    def ints(self, n=6, hi=40):
        return [self.ch.n(hi) for _ in range(self.ch.n(n))]


def sc(x):
    if isinstance(x, bool):
        return "#t" if x else "#f"
    if isinstance(x, (list, tuple)):
        return "(" + " ".join(sc(y) for y in x) + ")"
    return str(x)


def hist_iset(ch):
    h = Hist(ch, "iset")
    vers = {}      # name -> python set
    names = []
    h.lines.append("(define s0 (iset))")
    vers["s0"] = set()
    names.append("s0")
    pool = [0, 1, 2, 7, 8, 31, 32, 33, 62, 63, 64, 65, 127, 128, 511, 512, 513, 1000, 4096, 65535, 65536, 1114111]
    for _ in range(8 + ch.n(50)):
        op = ch.pick(["adjoin", "adjoin", "delete", "union", "intersection", "difference", "contains", "size", "list", "range", "old", "rank", "fold", "adjoin!", "eq", "mrange", "mrange", "mdiff", "mdiff"])
        a = ch.pick(names)
        if op in ("adjoin", "delete", "adjoin!"):
            x = ch.pick(pool) if ch.p(0.7) else ch.n(300)
            new = "s%d" % len(names)
            if op == "adjoin":
                h.lines.append("(define %s (iset-adjoin %s %d))" % (new, a, x))
                vers[new] = vers[a] | {x}
            elif op == "delete":
                h.lines.append("(define %s (iset-delete %s %d))" % (new, a, x))
                vers[new] = vers[a] - {x}
            else:
                h.lines.append("(define %s (iset-adjoin! (iset-copy %s) %d))" % (new, a, x))
                vers[new] = vers[a] | {x}
            names.append(new)
            h.updates += 1
        elif op in ("union", "intersection", "difference"):
            b = ch.pick(names)
            new = "s%d" % len(names)
            h.lines.append("(define %s (iset-%s %s %s))" % (new, op, a, b))
            vers[new] = {"union": vers[a] | vers[b], "intersection": vers[a] & vers[b], "difference": vers[a] - vers[b]}[op]
            names.append(new)
            h.updates += 1
        elif op == "range":
            lo = ch.pick(pool)
            n = ch.pick([1, 2, 30, 64, 65, 200])
            new = "s%d" % len(names)
            h.lines.append("(define %s (iset-union %s (list->iset (l:iota %d %d))))" % (new, a, n, lo))
            vers[new] = vers[a] | set(range(lo, lo + n))
            names.append(new)
            h.updates += 1
        elif op in ("mrange", "mdiff"):
            # pure range nodes (make-iset lo hi) joined to / cut out of a set: boundaries touch existing nodes
            base = ch.pick(sorted(vers[a])) if vers[a] and ch.p(0.6) else ch.pick(pool)
            lo = max(0, base + ch.n(5) - 2)
            hi = lo + ch.pick([0, 0, 1, 2, 40, 300])
            new = "s%d" % len(names)
            if op == "mrange":
                h.lines.append("(define %s (iset-union %s (make-iset %d %d)))" % (new, a, lo, hi))
                vers[new] = vers[a] | set(range(lo, hi + 1))
            else:
                h.lines.append("(define %s (iset-difference %s (make-iset %d %d)))" % (new, a, lo, hi))
                vers[new] = vers[a] - set(range(lo, hi + 1))
            names.append(new)
            h.updates += 1
            h.emit("(map (lambda (i) (iset-contains? %s i)) '(%s))" % (new, " ".join(str(x) for x in range(max(0, lo - 1), min(hi, lo + 3) + 2))),
                   sc([x in vers[new] for x in range(max(0, lo - 1), min(hi, lo + 3) + 2)]))
        elif op == "contains":
            x = ch.pick(pool)
            h.emit("(iset-contains? %s %d)" % (a, x), sc(x in vers[a]))
        elif op == "size":
            h.emit("(iset-size %s)" % a, str(len(vers[a])))
        elif op == "list":
            if len(vers[a]) <= 400:
                h.emit("(iset->list %s)" % a, sc(sorted(vers[a])))
        elif op == "old":
            old = names[ch.n(max(1, len(names) // 2))]
            if h.updates > 0:
                h.requery_old = True
            if len(vers[old]) <= 400:
                h.emit("(list (iset-size %s) (iset->list %s))" % (old, old), sc([len(vers[old]), sorted(vers[old])]))
        elif op == "fold":
            h.emit("(iset-fold + 0 %s)" % a, str(sum(vers[a])))
        elif op == "eq":
            b = ch.pick(names)
            h.emit("(list (iset= %s %s) (iset<= %s %s))" % (a, b, a, b), sc([vers[a] == vers[b], vers[a] <= vers[b]]))
        elif op == "rank":
            if vers[a]:
                x = sorted(vers[a])[ch.n(len(vers[a]))]
                h.emit("(iset-rank %s %d)" % (a, x), str(sorted(vers[a]).index(x)))
    for nm in names[-3:]:
        if len(vers[nm]) <= 3000:
            h.emit("(list (iset-size %s) (iset->list %s))" % (nm, nm), sc([len(vers[nm]), sorted(vers[nm])]))
    return h


def hist_mapping(ch):
    h = Hist(ch, "mapping")
    vers = {"m0": {}}
    names = ["m0"]
    h.lines.append("(define m0 (mapping cmp))")
    for _ in range(8 + ch.n(50)):
        op = ch.pick(["set", "set", "set", "delete", "ref", "contains", "size", "alist", "old", "update", "adjoin", "min", "fold", "union", "bulk", "drain", "drain"])
        a = ch.pick(names)
        k = ch.n(30)
        if op == "drain":
            # several deletions from a larger tree (the rebalancing cases of deletion need depth), then a full audit
            big = [nm for nm in names if len(vers[nm]) >= 11]
            if not big:
                continue
            a = ch.pick(big)
            ks_all = sorted(vers[a])
            dels = [ks_all[ch.n(len(ks_all))] if ch.p(0.8) else ch.n(90) for _ in range(1 + ch.n(4))]
            new = "m%d" % len(names)
            h.lines.append("(define %s (l:fold (lambda (i acc) (mapping-delete acc i)) %s '(%s)))" % (new, a, " ".join(str(d) for d in dels)))
            m = dict(vers[a])
            for d in dels:
                m.pop(d, None)
            vers[new] = m
            names.append(new)
            h.updates += 1
            h.emit("(list (mapping-size %s) (mapping->alist %s) (map (lambda (k) (mapping-ref/default %s k 'none)) '(%s)))" % (new, new, new, " ".join(str(x) for x in ks_all)),
                   "(%d (%s) (%s))" % (len(m), " ".join("(%d . %d)" % kv for kv in sorted(m.items())), " ".join(str(m.get(x, "none")) for x in ks_all)))
            continue
        if op in ("set", "delete", "adjoin", "update", "union", "bulk"):
            new = "m%d" % len(names)
            m = dict(vers[a])
            if op == "set":
                v = ch.n(100)
                h.lines.append("(define %s (mapping-set %s %d %d))" % (new, a, k, v))
                m[k] = v
            elif op == "delete":
                h.lines.append("(define %s (mapping-delete %s %d))" % (new, a, k))
                m.pop(k, None)
            elif op == "adjoin":
                v = ch.n(100)
                h.lines.append("(define %s (mapping-adjoin %s %d %d))" % (new, a, k, v))
                m.setdefault(k, v)
            elif op == "update":
                h.lines.append("(define %s (mapping-update/default %s %d (lambda (x) (+ x 1)) 500))" % (new, a, k))
                m[k] = m.get(k, 500) + 1
            elif op == "union":
                b = ch.pick(names)
                h.lines.append("(define %s (mapping-union %s %s))" % (new, a, b))
                mb = dict(vers[b])
                mb.update(m)       # the first mapping's associations win
                m = mb
            else:
                lo, n = ch.n(40), 5 + ch.n(40)
                h.lines.append("(define %s (l:fold (lambda (i acc) (mapping-set acc i (* i i))) %s (l:iota %d %d)))" % (new, a, n, lo))
                for i in range(lo, lo + n):
                    m[i] = i * i
            vers[new] = m
            names.append(new)
            h.updates += 1
        elif op == "ref":
            h.emit("(mapping-ref/default %s %d 'none)" % (a, k), str(vers[a].get(k, "none")))
        elif op == "contains":
            h.emit("(mapping-contains? %s %d)" % (a, k), sc(k in vers[a]))
        elif op == "size":
            h.emit("(mapping-size %s)" % a, str(len(vers[a])))
        elif op == "alist":
            h.emit("(mapping->alist %s)" % a, "(" + " ".join("(%d . %d)" % kv for kv in sorted(vers[a].items())) + ")")
        elif op == "old":
            old = names[ch.n(max(1, len(names) // 2))]
            if h.updates > 0:
                h.requery_old = True
            h.emit("(mapping->alist %s)" % old, "(" + " ".join("(%d . %d)" % kv for kv in sorted(vers[old].items())) + ")")
        elif op == "min":
            if vers[a]:
                h.emit("(list (mapping-min-key %s) (mapping-max-key %s))" % (a, a), sc([min(vers[a]), max(vers[a])]))
        elif op == "fold":
            h.emit("(mapping-fold (lambda (k v acc) (+ acc (* k v))) 0 %s)" % a, str(sum(k_ * v for k_, v in vers[a].items())))
    return h


def hist_set(ch):
    h = Hist(ch, "set")
    vers = {"t0": collections.Counter()}
    names = ["t0"]
    bag = ch.p(0.4)
    mk = "bag" if bag else "set"
    h.lib = mk
    h.lines.append("(define t0 (%s cmp))" % mk)
    for _ in range(8 + ch.n(50)):
        op = ch.pick(["adjoin", "adjoin", "delete", "union", "intersection", "difference", "contains", "size", "list", "old", "count", "xor", "compare", "compare", "shift"])
        a = ch.pick(names)
        x = ch.n(5 if bag else 25)      # few distinct elements in a bag, so that multiplicities matter
        if op == "shift":
            # same size, (nearly) the same elements, one occurrence moved from one element to another
            present = sorted(k for k in vers[a] if vers[a][k] > 0)
            if len(present) < 2:
                continue
            x, y = present[ch.n(len(present))], present[ch.n(len(present))]
            new = "t%d" % len(names)
            c = collections.Counter(vers[a])
            c[x] -= 1
            if bag or c[y] == 0:
                c[y] += 1
            c = +c
            h.lines.append("(define %s (%s-adjoin (%s-delete %s %d) %d))" % (new, mk, mk, a, x, y))
            vers[new] = c
            names.append(new)
            h.updates += 1
            ca, cb = vers[a], c
            le = all(ca[k] <= cb[k] for k in ca)
            ge = all(cb[k] <= ca[k] for k in cb)
            h.emit("(list (%s=? %s %s) (%s<=? %s %s) (%s>=? %s %s) (%s<? %s %s))" % (mk, a, new, mk, a, new, mk, a, new, mk, a, new), sc([le and ge, le, ge, le and not ge]))
            continue
        if op in ("adjoin", "delete", "union", "intersection", "difference", "xor"):
            new = "t%d" % len(names)
            c = collections.Counter(vers[a])
            if op == "adjoin":
                h.lines.append("(define %s (%s-adjoin %s %d))" % (new, mk, a, x))
                if bag or c[x] == 0:
                    c[x] += 1
            elif op == "delete":
                h.lines.append("(define %s (%s-delete %s %d))" % (new, mk, a, x))
                if c[x] > 0:
                    c[x] -= 1
            else:
                b = ch.pick(names)
                cb = vers[b]
                h.lines.append("(define %s (%s-%s %s %s))" % (new, mk, op, a, b))
                if op == "union":
                    c = c | cb if bag else collections.Counter(set(c.elements()) | set(cb.elements()))
                elif op == "intersection":
                    c = c & cb
                elif op == "difference":
                    c = c - cb if bag else collections.Counter(set(c.elements()) - set(cb.elements()))
                else:
                    if bag:
                        c = (c - cb) + (cb - c)
                    else:
                        c = collections.Counter(set(c.elements()) ^ set(cb.elements()))
            c = +c
            vers[new] = c
            names.append(new)
            h.updates += 1
        elif op == "contains":
            h.emit("(%s-contains? %s %d)" % (mk, a, x), sc(vers[a][x] > 0))
        elif op == "compare":
            # = < <= > >= with multiplicities (a bag is below another iff every count is)
            b = ch.pick(names)
            ca, cb = vers[a], vers[b]
            le = all(ca[k] <= cb[k] for k in ca)
            ge = all(cb[k] <= ca[k] for k in cb)
            h.emit("(list (%s=? %s %s) (%s<? %s %s) (%s<=? %s %s) (%s>? %s %s) (%s>=? %s %s))" % (mk, a, b, mk, a, b, mk, a, b, mk, a, b, mk, a, b),
                   sc([le and ge, le and not ge, le, ge and not le, ge]))
        elif op == "size":
            h.emit("(%s-size %s)" % (mk, a), str(sum(vers[a].values())))
        elif op == "list":
            h.emit("(sorted-list (%s->list %s))" % (mk, a), sc(sorted(vers[a].elements())))
        elif op == "old":
            old = names[ch.n(max(1, len(names) // 2))]
            if h.updates > 0:
                h.requery_old = True
            h.emit("(sorted-list (%s->list %s))" % (mk, old), sc(sorted(vers[old].elements())))
        elif op == "count":
            if bag:
                h.emit("(bag-element-count %s %d)" % (a, x), str(vers[a][x]))
    return h


def hist_ideque(ch):
    h = Hist(ch, "ideque")
    vers = {"d0": []}
    names = ["d0"]
    h.lines.append("(define d0 (ideque))")
    for _ in range(8 + ch.n(50)):
        op = ch.pick(["addf", "addb", "addf", "addb", "remf", "remb", "front", "back", "list", "len", "old", "append", "reverse", "take", "ref",
                      "drop", "drop", "taker", "dropr"])
        a = ch.pick(names)
        x = ch.n(100)
        cur = vers[a]
        if op in ("addf", "addb", "remf", "remb", "append", "reverse", "take", "drop", "taker", "dropr"):
            new = "d%d" % len(names)
            if op == "addf":
                h.lines.append("(define %s (ideque-add-front %s %d))" % (new, a, x))
                v = [x] + cur
            elif op == "addb":
                h.lines.append("(define %s (ideque-add-back %s %d))" % (new, a, x))
                v = cur + [x]
            elif op == "remf":
                if not cur:
                    continue
                h.lines.append("(define %s (ideque-remove-front %s))" % (new, a))
                v = cur[1:]
            elif op == "remb":
                if not cur:
                    continue
                h.lines.append("(define %s (ideque-remove-back %s))" % (new, a))
                v = cur[:-1]
            elif op == "append":
                b = ch.pick(names)
                h.lines.append("(define %s (ideque-append %s %s))" % (new, a, b))
                v = cur + vers[b]
            elif op == "reverse":
                h.lines.append("(define %s (ideque-reverse %s))" % (new, a))
                v = cur[::-1]
            else:
                n = ch.n(len(cur) + 1)
                fn, v = {"take": ("ideque-take", cur[:n]), "drop": ("ideque-drop", cur[n:]), "taker": ("ideque-take-right", cur[len(cur) - n:]),
                         "dropr": ("ideque-drop-right", cur[:len(cur) - n])}[op]
                h.lines.append("(define %s (%s %s %d))" % (new, fn, a, n))
                # the cached lengths of the two halves must describe the new deque
                h.emit("(list (ideque-length %s) (ideque->list %s))" % (new, new), sc([len(v), v]))
            vers[new] = v
            names.append(new)
            h.updates += 1
        elif op == "front":
            if cur:
                h.emit("(ideque-front %s)" % a, str(cur[0]))
        elif op == "back":
            if cur:
                h.emit("(ideque-back %s)" % a, str(cur[-1]))
        elif op == "list":
            h.emit("(ideque->list %s)" % a, sc(cur))
        elif op == "len":
            h.emit("(list (ideque-length %s) (ideque-empty? %s))" % (a, a), sc([len(cur), not cur]))
        elif op == "ref":
            if cur:
                i = ch.n(len(cur))
                h.emit("(ideque-ref %s %d)" % (a, i), str(cur[i]))
        elif op == "old":
            old = names[ch.n(max(1, len(names) // 2))]
            if h.updates > 0:
                h.requery_old = True
            h.emit("(ideque->list %s)" % old, sc(vers[old]))
    return h


def hist_rlist(ch):
    h = Hist(ch, "rlist")
    vers = {"r0": []}
    names = ["r0"]
    h.lines.append("(define r0 (r:list))")
    for _ in range(8 + ch.n(50)):
        op = ch.pick(["cons", "cons", "cons", "cdr", "set", "ref", "length", "list", "old", "append", "reverse", "tail", "map"])
        a = ch.pick(names)
        cur = vers[a]
        x = ch.n(100)
        if op in ("cons", "cdr", "set", "append", "reverse", "tail", "map"):
            new = "r%d" % len(names)
            if op == "cons":
                h.lines.append("(define %s (r:cons %d %s))" % (new, x, a))
                v = [x] + cur
            elif op == "cdr":
                if not cur:
                    continue
                h.lines.append("(define %s (r:cdr %s))" % (new, a))
                v = cur[1:]
            elif op == "set":
                if not cur:
                    continue
                i = ch.n(len(cur))
                h.lines.append("(define %s (r:list-set %s %d %d))" % (new, a, i, x))
                v = cur[:i] + [x] + cur[i + 1:]
            elif op == "append":
                b = ch.pick(names)
                h.lines.append("(define %s (r:append %s %s))" % (new, a, b))
                v = cur + vers[b]
            elif op == "reverse":
                h.lines.append("(define %s (r:reverse %s))" % (new, a))
                v = cur[::-1]
            elif op == "tail":
                n = ch.n(len(cur) + 1)
                h.lines.append("(define %s (r:list-tail %s %d))" % (new, a, n))
                v = cur[n:]
            else:
                h.lines.append("(define %s (r:map (lambda (e) (+ e 1)) %s))" % (new, a))
                v = [e + 1 for e in cur]
            vers[new] = v
            names.append(new)
            h.updates += 1
        elif op == "ref":
            if cur:
                i = ch.n(len(cur))
                h.emit("(r:list-ref %s %d)" % (a, i), str(cur[i]))
        elif op == "length":
            h.emit("(r:length %s)" % a, str(len(cur)))
        elif op == "list":
            h.emit("(r:random-access-list->linear-access-list %s)" % a, sc(cur))
        elif op == "old":
            old = names[ch.n(max(1, len(names) // 2))]
            if h.updates > 0:
                h.requery_old = True
            h.emit("(r:random-access-list->linear-access-list %s)" % old, sc(vers[old]))
    return h


def hist_queue(ch):
    h = Hist(ch, "list-queue")
    q = []
    h.lines.append("(define q (list-queue))")
    for _ in range(8 + ch.n(50)):
        op = ch.pick(["addf", "addb", "addb", "remf", "remb", "front", "back", "list", "empty", "append", "copy-map"])
        x = ch.n(100)
        if op == "addf":
            h.lines.append("(list-queue-add-front! q %d)" % x)
            q.insert(0, x)
            h.updates += 1
        elif op == "addb":
            h.lines.append("(list-queue-add-back! q %d)" % x)
            q.append(x)
            h.updates += 1
        elif op == "remf":
            if q:
                h.emit("(list-queue-remove-front! q)", str(q.pop(0)))
                h.updates += 1
        elif op == "remb":
            if q:
                h.emit("(list-queue-remove-back! q)", str(q.pop()))
                h.updates += 1
        elif op == "front":
            if q:
                h.emit("(list-queue-front q)", str(q[0]))
        elif op == "back":
            if q:
                h.emit("(list-queue-back q)", str(q[-1]))
        elif op == "list":
            h.emit("(list-copy (list-queue-list q))", sc(q))
        elif op == "empty":
            h.emit("(list-queue-empty? q)", sc(not q))
        elif op == "append":
            ys = [ch.n(100) for _ in range(ch.n(4))]
            h.lines.append("(set! q (list-queue-append q (list-queue %s)))" % " ".join(map(str, ys)))
            q = q + ys
            h.updates += 1
        else:
            h.emit("(list-queue-list (list-queue-map (lambda (e) (* 2 e)) q))", sc([2 * e for e in q]))
    h.requery_old = True
    return h


def hist_lists(ch):
    """SRFI 1 / SRFI 133 operation table on generated lists / vectors"""
    h = Hist(ch, "srfi1-133")
    for _ in range(8 + ch.n(30)):
        xs = [ch.n(10) for _ in range(ch.n(9))]
        ys = [ch.n(10) for _ in range(ch.n(6))]
        L = "(list %s)" % " ".join(map(str, xs))
        M = "(list %s)" % " ".join(map(str, ys))
        V = "(vector %s)" % " ".join(map(str, xs))
        k = ch.n(len(xs) + 1)
        op = ch.n(24)
        h.updates += 1
        if op == 0:
            h.emit("(l:take %s %d)" % (L, k), sc(xs[:k]))
        elif op == 1:
            h.emit("(l:drop %s %d)" % (L, k), sc(xs[k:]))
        elif op == 2:
            h.emit("(l:take-right %s %d)" % (L, k), sc(xs[len(xs) - k:]))
        elif op == 3:
            h.emit("(l:drop-right %s %d)" % (L, k), sc(xs[:len(xs) - k]))
        elif op == 4:
            h.emit("(l:filter even? %s)" % L, sc([x for x in xs if x % 2 == 0]))
        elif op == 5:
            h.emit("(call-with-values (lambda () (l:partition even? %s)) list)" % L, sc([[x for x in xs if x % 2 == 0], [x for x in xs if x % 2]]))
        elif op == 6:
            seen = []
            for x in xs:
                if x not in seen:
                    seen.append(x)
            h.emit("(l:delete-duplicates %s)" % L, sc(seen))
        elif op == 7:
            h.emit("(l:fold cons '() %s)" % L, sc(xs[::-1]))
        elif op == 8:
            h.emit("(l:fold-right cons '() %s)" % L, sc(xs))
        elif op == 9:
            h.emit("(l:append-map (lambda (x) (list x x)) %s)" % L, sc([y for x in xs for y in (x, x)]))
        elif op == 10:
            h.emit("(l:list-index even? %s)" % L, sc(next((i for i, x in enumerate(xs) if x % 2 == 0), False)))
        elif op == 11:
            h.emit("(l:delete %d %s)" % (k, L), sc([x for x in xs if x != k]))
        elif op == 12:
            h.emit("(l:lset-union = %s %s)" % (L, M), None)     # order unspecified: compared as sets below
            h.expect[-1] = ("set", sorted(set(xs) | set(ys)))
        elif op == 13:
            h.emit("(l:lset-intersection = %s %s)" % (L, M), sc([x for x in xs if x in ys]))
        elif op == 14:
            h.emit("(l:lset-difference = %s %s)" % (L, M), sc([x for x in xs if x not in ys]))
        elif op == 15:
            h.emit("(l:count even? %s)" % L, str(sum(1 for x in xs if x % 2 == 0)))
        elif op == 16:
            h.emit("(call-with-values (lambda () (l:span even? %s)) list)" % L,
                   sc([xs[:next((i for i, x in enumerate(xs) if x % 2), len(xs))], xs[next((i for i, x in enumerate(xs) if x % 2), len(xs)):]]))
        elif op == 17:
            h.emit("(l:last-pair (cons 0 %s))" % L, sc([([0] + xs)[-1]]))
        elif op == 18:
            h.emit("(v:vector-index even? %s)" % V, sc(next((i for i, x in enumerate(xs) if x % 2 == 0), False)))
        elif op == 19:
            h.emit("(v:vector-count even? %s)" % V, str(sum(1 for x in xs if x % 2 == 0)))
        elif op == 20:
            h.emit("(vector->list (v:vector-reverse-copy %s))" % V, sc(xs[::-1]))
        elif op == 21:
            h.emit("(v:vector-fold (lambda (acc x) (cons x acc)) '() %s)" % V, sc(xs[::-1]))
        elif op == 22:
            h.emit("(vector->list (v:vector-append-subvectors %s 0 %d %s %d %d))" % (V, k, V, k, len(xs)), sc(xs))
        else:
            h.emit("(let ((v %s)) (v:vector-swap! v 0 (- (vector-length v) 1)) (vector->list v))" % V if xs else "'()",
                   sc([xs[-1]] + xs[1:-1] + [xs[0]] if len(xs) > 1 else xs))
    h.requery_old = True
    return h


HISTS = {"iset": hist_iset, "mapping": hist_mapping, "set": hist_set, "ideque": hist_ideque, "rlist": hist_rlist, "queue": hist_queue, "lists": hist_lists}

_D = None


def driver():
    global _D
    if _D is None:
        import tempfile, os
        f = tempfile.NamedTemporaryFile("w", suffix=".scm", delete=False, dir="/var/tmp")
        f.write(PRELUDE)
        f.close()
        try:
            _D = Driver("plain", imports=IMPORTS, prelude=f.name)
        finally:
            os.unlink(f.name)
    return _D


def norm(s):
    return re.sub(r"\s+", " ", s.strip())


def check_hist(lines, expect, lib):
    prog = "\n".join(lines) + "\n"
    r = driver().run(prog, cpu=30)
    if r.status in ("cpu", "wall"):
        return None, "inconclusive"
    if r.status != "ok":
        return E.Found("crash/" + lib, "%s %s\n%s" % (r.status, r.err[-400:], prog)), "ok"
    outs = {}
    for ln in r.body.split("\n"):
        m = re.match(r"^(\d+) (.*)$", ln)
        if m:
            outs[int(m.group(1))] = m.group(2)
    if "#!ERR" in r.body:
        err = [l for l in r.body.split("\n") if "#!ERR" in l or "ERROR" in l][:2]
        return E.Found("%s/error-in-update" % lib, "an update raised: %r\n%s" % (err, prog)), "ok"
    for i, want in enumerate(expect):
        got = outs.get(i)
        if got is None:
            return E.Found("%s/step-missing" % lib, "step %d missing\n%s" % (i, prog)), "ok"
        if isinstance(want, tuple) and want[0] == "set":
            try:
                g = sorted(set(int(x) for x in re.findall(r"-?\d+", got)))
            except Exception:
                g = None
            if g != want[1]:
                return E.Found("%s/model-mismatch" % lib, "step %d: got %s expected set %r\n%s" % (i, got, want[1], prog)), "ok"
            continue
        if norm(got) != norm(want):
            op = re.findall(r"\(try %d \(([^\s()]+)" % i, prog)
            return E.Found("%s/model-mismatch/%s" % (lib, op[0] if op else "?"), "step %d: got %s expected %s\n%s" % (i, got[:300], want[:300], prog)), "ok"
    return None, "ok"


def shards(tier, seed, nshards, known):
    return [{"tier": tier, "seed": seed, "shard": i, "nshards": nshards, "known": known} for i in range(nshards)]


def run_sorts(rng, n, res, known):
    seen = set()
    for _ in range(n):
        cases = [sort_case(rng) for _ in range(60)]
        lines = []
        modes = []
        for i, c in enumerate(cases):
            ln, mode = sort_program(i, c)
            lines.append(ln)
            modes.append(mode)
        r = driver().run("\n".join(lines) + "\n", cpu=120)
        outs = {}
        for ln in r.body.split("\n"):
            m = re.match(r"^(\d+) (.*)$", ln)
            if m:
                outs[int(m.group(1))] = m.group(2)
        for i, c in enumerate(cases):
            keys = c["keys"]
            nt = len(keys) >= 3 and len(set(keys)) < len(keys)
            pub = {k: v for k, v in c.items() if not k.startswith("_")}
            res.case(pub, nt, cls=["sort:" + c["fn"], "cmp:" + c["cmp"], "len:%s" % (len(keys) if len(keys) <= 8 else "9+")], sample=False)
            if i not in outs:
                why = "no result (status %s)" % r.status
            else:
                why = judge_sort(c, modes[i], outs[i])
            if why:
                sig = "sort/%s/%s/%s" % (c["fn"], c["cmp"] if c["cmp"].startswith("opcode") or c["fn"] in ("sort", "sort!") else "closure", why.split(":")[0][:40])
                if sig not in seen:
                    seen.add(sig)
                    res.violation(pub, sig, why + "\ncase=%r" % (pub,))
    if not res.samples:
        res.samples.append({"sort": "see classes"})


def run_shard(spec):
    res = E.ShardResult()
    quick = spec["tier"] != "thorough"
    rng = random.Random(E.subseed(spec["seed"], "C18", spec["shard"]))
    run_sorts(rng, 8 if quick else 400, res, spec["known"])
    last = {}
    libs = sorted(HISTS)

    def test(data):
        ch = E.HypChooser(data)
        lib = ch.pick(libs)
        h = HISTS[lib](ch)
        found, status = check_hist(h.lines, h.expect, h.lib)
        if status == "inconclusive":
            res.inconclusive += 1
            return
        nt = h.updates >= 20 and h.requery_old
        res.case({"lib": h.lib, "program": "\n".join(h.lines)}, nt, cls=["lib:" + h.lib], sample=nt and rng.random() < 0.01)
        if found:
            last["case"] = {"lib": h.lib, "lines": h.lines, "expect": h.expect}
            raise found

    E.hypothesis_search(st.data(), test, E.subseed(spec["seed"], "C18h", spec["shard"]), 250 if quick else 30000, res, to_case=lambda d: last.get("case"), max_findings=6)
    if _D is not None:
        _D.close()
    return res


def replay(case):
    if case.get("kind") == "sort":
        c = dict(case)
        ln, mode = sort_program(0, c)
        r = driver().run(ln + "\n", cpu=60)
        m = re.search(r"^0 (.*)$", r.body, re.M)
        why = judge_sort(c, mode, m.group(1)) if m else "no result (status %s)" % r.status
        if why:
            sig = "sort/%s/%s/%s" % (c["fn"], c["cmp"] if c["cmp"].startswith("opcode") or c["fn"] in ("sort", "sort!") else "closure", why.split(":")[0][:40])
            return {"signature": sig, "detail": why, "case": case}
        return None
    exp = [tuple(e) if isinstance(e, list) else e for e in case["expect"]]
    found, status = check_hist(case["lines"], exp, case["lib"])
    if found:
        return {"signature": found.signature, "detail": found.detail, "case": case}
    return None
