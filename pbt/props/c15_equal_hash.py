"""C15 -- equal?, eqv? and hashing are coherent; hash tables behave as finite maps.

(i)  abstract values (exact integers incl. bignums, ratios, flonums, chars, strings, symbols,
     lists, vectors, bytevectors, nested) are each realised through 2-4 independent
     computation routes; all routes of one value must be equal? (eqv? for numbers/chars),
     have equal (srfi 69) hash / string-hash, and values of different abstract identity must
     not be equal?; equal? on circular lists must terminate with the answer computed in Python.
(ii) histories on SRFI 69 tables (equal? / eqv? / string=? equivalences, bulk inserts forcing
     several resizes, deletes, updates, copies, folds) against a Python dict keyed by the
     equivalence class of the key.
"""
import random
import re
from fractions import Fraction

from hypothesis import strategies as st

from .. import engine as E
from .. import numgen as N
from ..worker import Driver

VARIANTS = ["plain"]
IMPORTS = ["(scheme base)", "(scheme write)", "(scheme char)", "(srfi 69)", "(only (srfi 1) fold iota)", "(only (srfi 95) sort)"]
RULE = ("case = (i) a family of abstract values each with 2-4 computation routes (bignums via arithmetic leaving spare words, "
        "strings via mutation / ports / utf8, lists via append/reverse, vectors via set!, ...) checked pairwise for equal?/eqv?/hash "
        "coherence, or a pair of circular lists; (ii) a hash-table history (<= 120 steps incl. bulk inserts forcing resizes) on an "
        "equal?/eqv?/string=? table; non-trivial iff (i) the family contains a non-immediate value with two different routes, "
        "(ii) the history triggers >= 2 resizes (>= 40 live keys reached twice) and looks up an equal-but-not-eq key after a "
        "delete; distinct by case digest")
ASSUMPTIONS = ["eqv? on NaN is unspecified and not asserted", "iteration order of hash tables is never compared (multisets / sorted)"]

BIG = 2 ** 200


def int_routes(n):
    r = [str(n), "(- (+ %d %d) %d)" % (n, BIG, BIG), "(string->number \"%d\")" % n]
    if n != 0:
        r.append("(quotient (* %d %d) %d)" % (n, 3 ** 50, 3 ** 50))
    r.append("(- %d 0)" % n)
    return r


def ratio_routes(f):
    p, q = f.numerator, f.denominator
    return ["%d/%d" % (p, q), "(/ %d %d)" % (p, q), "(/ %d %d)" % (p * 6, q * 6), "(- (+ %d/%d %d) %d)" % (p, q, BIG, BIG)]


def flo_routes(x):
    t = repr(x)
    if t == "inf":
        return ["+inf.0", "(/ 1. 0.)"]
    if t == "-inf":
        return ["-inf.0", "(/ -1. 0.)"]
    return [t, "(* %s 1.)" % t, "(string->number \"%s\")" % t, "(+ %s 0.)" % t if x != 0 else t]


def str_expr(cps):
    return "(string %s)" % " ".join("(integer->char %d)" % c for c in cps)


def string_routes(cps):
    r = [str_expr(cps), "(list->string (list %s))" % " ".join("(integer->char %d)" % c for c in cps),
         "(string-append %s %s)" % (str_expr(cps[:len(cps) // 2]), str_expr(cps[len(cps) // 2:])),
         "(let ((p (open-output-string))) (write-string %s p) (get-output-string p))" % str_expr(cps),
         "(utf8->string (string->utf8 %s))" % str_expr(cps),
         "(substring (string-append \"xy\" %s \"z\") 2 %d)" % (str_expr(cps), 2 + len(cps))]
    if cps:
        # width-changing mutation from a different initial content
        other = 0x1F600 if cps[0] < 0x80 else 0x61
        r.append("(let ((s %s)) (string-set! s 0 (integer->char %d)) s)" % (str_expr([other] + cps[1:]), cps[0]))
    return r


class ValGen(object):
    def __init__(self, ch):
        self.ch = ch
        self.rng = random.Random(ch.n(1 << 30))

    def value(self, depth):
        """returns (kind, python-canonical, [route exprs])"""
        ch = self.ch
        k = ch.n(10) if depth > 0 else ch.n(7)
        if k == 0:
            n = ch.pick([0, 1, -1, 42, 2 ** 62 - 1, -2 ** 62, 2 ** 62, 2 ** 64, -2 ** 64 - 1, 2 ** 100, N.rand_int(self.rng, 400)])
            return ("num", ("i", n), int_routes(n))
        if k == 1:
            f = N.rand_ratio(self.rng, 150)
            if f.denominator == 1:
                f = f + Fraction(1, 3)
            return ("num", ("q", f), ratio_routes(f))
        if k == 2:
            x = ch.pick([0.0, -0.0, 1.5, -2.25, 1e21, 1e-7, 3.141592653589793, float("inf"), 123456789.125, 2.0 ** 70])
            return ("num", ("f", repr(x)), flo_routes(x))
        if k == 3:
            c = ch.pick([0x61, 0x41, 0x20, 0x3BB, 0x4E16, 0x1F600, 0])
            return ("char", ("c", c), ["(integer->char %d)" % c, "(string-ref %s 1)" % str_expr([0x78, c, 0x79]), "(car (string->list %s))" % str_expr([c])])
        if k == 4:
            cps = [ch.pick([0x61, 0x62, 0x7A, 0x20, 0xE9, 0x3BB, 0x4E16, 0x1F600]) for _ in range(ch.n(6))]
            return ("str", ("s", tuple(cps)), string_routes(cps))
        if k == 5:
            name = ch.pick(["a", "foo", "bar-baz", "x1"])
            return ("sym", ("y", name), ["'%s" % name, "(string->symbol \"%s\")" % name, "(string->symbol (string-append \"%s\" \"%s\"))" % (name[:1], name[1:])])
        if k == 6:
            bs = [ch.n(256) for _ in range(ch.n(6))]
            return ("bv", ("b", tuple(bs)), ["(bytevector %s)" % " ".join(map(str, bs)), "(bytevector-copy (bytevector %s))" % " ".join(map(str, bs)),
                                             "(bytevector-append (bytevector %s) (bytevector %s))" % (" ".join(map(str, bs[:2])), " ".join(map(str, bs[2:])))])
        if k in (7, 8):
            items = [self.value(depth - 1) for _ in range(ch.n(4))]
            canon = ("l", tuple(i[1] for i in items))
            r0 = "(list %s)" % " ".join(i[2][0] for i in items)
            r1 = "(reverse (list %s))" % " ".join(i[2][-1] for i in reversed(items))
            r2 = "(append (list %s) (list %s))" % (" ".join(i[2][len(i[2]) // 2] for i in items[:1]), " ".join(i[2][0] for i in items[1:]))
            r3 = "(vector->list (vector %s))" % " ".join(i[2][-1] for i in items)
            return ("list", canon, [r0, r1, r2, r3])
        items = [self.value(depth - 1) for _ in range(ch.n(4))]
        canon = ("v", tuple(i[1] for i in items))
        r0 = "(vector %s)" % " ".join(i[2][0] for i in items)
        r1 = "(list->vector (list %s))" % " ".join(i[2][-1] for i in items)
        r2 = "(let ((v (make-vector %d 0))) %s v)" % (len(items), " ".join("(vector-set! v %d %s)" % (j, i[2][len(i[2]) // 2]) for j, i in enumerate(items)))
        return ("vec", canon, [r0, r1, r2])


PRELUDE = r"""
(define (check-family id groups kinds)
  ;; groups: vector of vectors of values; all members of one group are the same abstract value
  (let ((bad '()))
    (let gl ((g 0))
      (if (< g (vector-length groups))
          (let ((grp (vector-ref groups g)) (kind (vector-ref kinds g)))
            (let il ((i 0))
              (if (< i (vector-length grp))
                  (begin
                    (let jl ((j 0))
                      (if (< j (vector-length grp))
                          (let ((a (vector-ref grp i)) (b (vector-ref grp j)))
                            (if (not (equal? a b)) (set! bad (cons (list 'not-equal g i j) bad)))
                            (if (not (= (hash a) (hash b))) (set! bad (cons (list 'hash-differs g i j) bad)))
                            (if (and (memq kind '(num char sym)) (not (eqv? a b))) (set! bad (cons (list 'not-eqv g i j) bad)))
                            (if (and (eq? kind 'str) (not (= (string-hash a) (string-hash b)))) (set! bad (cons (list 'string-hash-differs g i j) bad)))
                            (jl (+ j 1)))))
                    ;; different abstract values must not be equal?
                    (let hl ((h (+ g 1)))
                      (if (< h (vector-length groups))
                          (begin
                            (if (equal? (vector-ref grp i) (vector-ref (vector-ref groups h) 0))
                                (set! bad (cons (list 'equal-but-different g i h) bad)))
                            (if (equal? (vector-ref (vector-ref groups h) 0) (vector-ref grp i))
                                (set! bad (cons (list 'equal-but-different-sym h g i) bad)))
                            (hl (+ h 1)))))
                    (il (+ i 1)))))
            (gl (+ g 1)))))
    (write id) (write-string " ") (write (if (null? bad) 'OK bad)) (newline)))
(define (circ . xs) (let ((l (list-copy xs))) (let lp ((p l)) (if (null? (cdr p)) (set-cdr! p l) (lp (cdr p)))) l))
"""


_D = None


def driver():
    global _D
    if _D is None:
        import tempfile, os
        f = tempfile.NamedTemporaryFile("w", suffix=".scm", delete=False, dir="/var/tmp")
        f.write(PRELUDE)
        f.close()
        try:
            _D = Driver("plain", imports=IMPORTS, prelude=f.name)
        finally:
            os.unlink(f.name)
    return _D


def family_program(vals):
    groups = " ".join("(vector %s)" % " ".join(v[2]) for v in vals)
    kinds = " ".join(v[0] for v in vals)
    return "(check-family 0 (vector %s) '#(%s))\n" % (groups, kinds)


def dedupe(vals):
    seen = set()
    out = []
    for v in vals:
        key = v[1]
        # numerically equal values of different exactness are different abstract values; 0.0 / -0.0 differ
        if key in seen:
            continue
        seen.add(key)
        out.append(v)
    return out


def check_family(vals):
    prog = family_program(vals)
    r = driver().run(prog, cpu=20)
    if r.status in ("cpu", "wall"):
        return E.Found("timeout/equal-or-hash", "did not finish\n" + prog), "ok"
    if r.status != "ok":
        return E.Found("crash", "%s %s\n%s" % (r.status, r.err[-500:], prog)), "ok"
    m = re.search(r"^0 (.*)$", r.body, re.M)
    if not m:
        return E.Found("no-verdict", "%r\n%s" % (r.body[-400:], prog)), "ok"
    if m.group(1) != "OK":
        kinds = sorted(set(re.findall(r"\((not-equal|hash-differs|not-eqv|string-hash-differs|equal-but-different|equal-but-different-sym) (\d+)", m.group(1))))
        sig = "+".join(sorted(set("%s/%s" % (k, vals[int(g)][0]) for k, g in kinds)))[:90]
        return E.Found("coherence/" + sig, "%s\nroutes per group:\n%s" % (m.group(1)[:600], "\n".join("%d %s: %s" % (i, v[0], v[2]) for i, v in enumerate(vals)))), "ok"
    return None, "ok"


def check_cycle(seq1, seq2):
    prog = "(write (list (equal? (circ %s) (circ %s)) (equal? (vector 1 (circ %s)) (vector 1 (circ %s)))))\n" % (
        " ".join(map(str, seq1)), " ".join(map(str, seq2)), " ".join(map(str, seq1)), " ".join(map(str, seq2)))
    r = driver().run(prog, cpu=10)
    want = (seq1 * len(seq2)) == (seq2 * len(seq1))
    if r.status in ("cpu", "wall"):
        return E.Found("equal?-does-not-terminate-on-cycles", "equal? on circular lists did not return\n" + prog)
    if r.status != "ok":
        return E.Found("crash/cycle", "%s %s\n%s" % (r.status, r.err[-400:], prog))
    w = "#t" if want else "#f"
    if r.body.strip() != "(%s %s)" % (w, w):
        return E.Found("equal?-wrong-on-cycles", "got %s, expected (%s %s)\n%s" % (r.body.strip(), w, w, prog))
    return None


# --------------------------------------------------------------------------- hash table histories

class TableHist(object):
    def __init__(self, ch):
        self.ch = ch
        self.lines = []
        self.expect = []
        self.max_live = 0
        self.resize_waves = 0
        self.tags = set()

    def generate(self):
        ch = self.ch
        eqv_kind = ch.pick(["equal?", "equal?", "eqv?", "string=?"])
        self.kind = eqv_kind
        vg = ValGen(ch)
        keys = []           # (var, canon-for-this-table)
        defs = []
        nabs = 3 + ch.n(5)
        for a in range(nabs):
            while True:
                v = vg.value(2)
                if eqv_kind == "string=?" and v[0] != "str":
                    continue
                if eqv_kind == "eqv?" and v[0] not in ("num", "char", "sym"):
                    continue
                break
            routes = v[2]
            for j in range(1 + ch.n(2)):
                var = "k%d_%d" % (a, j)
                defs.append("(define %s %s)" % (var, routes[(j * 2) % len(routes)]))
                keys.append((var, v[1]))
        model = {}
        lines = defs + ["(define h (make-hash-table %s))" % eqv_kind, "(define h2 #f)"]
        expect = []
        step = 0
        above = False
        deleted_canons = set()
        for _ in range(10 + ch.n(110)):
            op = ch.pick(["set", "set", "ref", "ref/default", "update", "update/default", "delete", "exists", "size", "bulk-set", "bulk-delete",
                          "copy", "fold", "alist", "values", "walk"])
            var, canon = ch.pick(keys)
            res = None
            if op == "set":
                val = ch.n(1000)
                stmt = "(begin (hash-table-set! h %s %d) 'ok)" % (var, val)
                model[canon] = val
                res = "ok"
            elif op == "ref":
                stmt = "(hash-table-ref h %s (lambda () 'missing))" % var
                res = str(model.get(canon, "missing"))
                if canon in deleted_canons:
                    self.tags.add("lookup-after-delete")
            elif op == "ref/default":
                stmt = "(hash-table-ref/default h %s 'dflt)" % var
                res = str(model.get(canon, "dflt"))
                if canon in deleted_canons:
                    self.tags.add("lookup-after-delete")
            elif op == "update":
                if canon not in model:
                    continue
                stmt = "(begin (hash-table-update! h %s (lambda (x) (+ x 1))) 'ok)" % var
                model[canon] += 1
                res = "ok"
            elif op == "update/default":
                stmt = "(begin (hash-table-update!/default h %s (lambda (x) (+ x 2)) 100) 'ok)" % var
                model[canon] = model.get(canon, 100) + 2
                res = "ok"
            elif op == "delete":
                stmt = "(begin (hash-table-delete! h %s) 'ok)" % var
                if canon in model:
                    deleted_canons.add(canon)
                model.pop(canon, None)
                res = "ok"
            elif op == "exists":
                stmt = "(hash-table-exists? h %s)" % var
                res = "#t" if canon in model else "#f"
            elif op == "size":
                stmt = "(hash-table-size h)"
                res = str(len(model))
            elif op == "bulk-set":
                if eqv_kind == "string=?":
                    lo, n = ch.n(50), 40 + ch.n(200)
                    stmt = "(begin (for-each (lambda (i) (hash-table-set! h (string-append \"bulk\" (number->string i)) i)) (iota %d %d)) 'ok)" % (n, lo)
                    for i in range(lo, lo + n):
                        model[("s", tuple(ord(c) for c in "bulk%d" % i))] = i
                else:
                    lo, n = ch.n(50), 40 + ch.n(200)
                    big = ch.pick([0, 2 ** 70])
                    stmt = "(begin (for-each (lambda (i) (hash-table-set! h (+ i %d) i)) (iota %d %d)) 'ok)" % (big, n, lo)
                    for i in range(lo, lo + n):
                        model[("i", i + big)] = i
                res = "ok"
            elif op == "bulk-delete":
                if eqv_kind == "string=?":
                    lo, n = ch.n(50), 30 + ch.n(200)
                    stmt = "(begin (for-each (lambda (i) (hash-table-delete! h (string-append \"bulk\" (number->string i)))) (iota %d %d)) 'ok)" % (n, lo)
                    for i in range(lo, lo + n):
                        model.pop(("s", tuple(ord(c) for c in "bulk%d" % i)), None)
                else:
                    lo, n = ch.n(50), 30 + ch.n(200)
                    big = ch.pick([0, 2 ** 70])
                    stmt = "(begin (for-each (lambda (i) (hash-table-delete! h (- (+ i %d %d) %d))) (iota %d %d)) 'ok)" % (big, BIG, BIG, n, lo)
                    for i in range(lo, lo + n):
                        model.pop(("i", i + big), None)
                res = "ok"
            elif op == "copy":
                stmt = "(begin (set! h2 (hash-table-copy h)) (hash-table-set! h2 'only-in-copy 1) (list (hash-table-size h2) (hash-table-size h)))" if eqv_kind != "string=?" else \
                    "(begin (set! h2 (hash-table-copy h)) (hash-table-set! h2 \"only-in-copy\" 1) (list (hash-table-size h2) (hash-table-size h)))"
                res = "(%d %d)" % (len(model) + 1, len(model))
            elif op == "fold":
                stmt = "(hash-table-fold h (lambda (k v acc) (+ v acc)) 0)"
                res = str(sum(model.values()))
            elif op == "alist":
                stmt = "(let ((al (hash-table->alist h))) (list (length al) (fold + 0 (map cdr al))))"
                res = "(%d %d)" % (len(model), sum(model.values()))
            elif op == "values":
                stmt = "(list (sort (hash-table-values h) <) (length (hash-table-keys h)))" if len(model) <= 30 else "(list (fold + 0 (hash-table-values h)) (length (hash-table-keys h)))"
                res = "((%s) %d)" % (" ".join(map(str, sorted(model.values()))), len(model)) if len(model) <= 30 else "(%d %d)" % (sum(model.values()), len(model))
            else:
                stmt = "(let ((n 0) (s 0)) (hash-table-walk h (lambda (k v) (set! n (+ n 1)) (set! s (+ s v)))) (list n s))"
                res = "(%d %d)" % (len(model), sum(model.values()))
            self.tags.add(op)
            lines.append("(write-string \"@%d \") (write %s) (newline)" % (step, stmt))
            expect.append("@%d %s" % (step, res))
            step += 1
            if len(model) >= 40 and not above:
                above = True
                self.resize_waves += 1
            if len(model) < 10:
                above = False
        # final sweep over the pool
        final = " ".join("(hash-table-ref/default h %s 'none)" % var for var, _ in keys)
        lines.append("(write-string \"@F \") (write (list %s)) (newline)" % final)
        expect.append("@F (%s)" % " ".join(str(model.get(c, "none")) for _, c in keys))
        self.nontrivial = self.resize_waves >= 2 and "lookup-after-delete" in self.tags
        return "\n".join(lines) + "\n", expect


def check_hist(prog, expect):
    r = driver().run(prog, cpu=30)
    if r.status in ("cpu", "wall"):
        return None, "inconclusive"
    if r.status != "ok":
        return E.Found("crash/table", "%s %s\n%s" % (r.status, r.err[-500:], prog)), "ok"
    got = [l.strip() for l in r.body.split("\n") if l.startswith("@")]
    for i, want in enumerate(expect):
        if i >= len(got):
            err = [l for l in r.body.split("\n") if "ERR" in l][:2]
            return E.Found("table/step-missing", "step %d missing (%r)\nexpected %s\n%s" % (i, err, want, prog)), "ok"
        if got[i] != want:
            op = re.findall(r"\((hash-table-[a-z!/>?-]+)", prog.split("\n")[len(prog.split("\n")) - len(expect) - 1 + i])
            return E.Found("table/model-mismatch/" + (op[0] if op else "?"), "step %d\nexpected: %s\ngot:      %s\n%s" % (i, want, got[i], prog)), "ok"
    return None, "ok"


DEEP_SHAPES = {
    "car": "(define (nest n leaf) (let lp ((i 0) (x leaf)) (if (= i n) x (lp (+ i 1) (list x 0)))))",
    "vec": "(define (nest n leaf) (let lp ((i 0) (x leaf)) (if (= i n) x (lp (+ i 1) (vector 1 x 2)))))",
    "cdr": "(define (nest n leaf) (let lp ((i 0) (x (list leaf))) (if (= i n) x (lp (+ i 1) (cons 0 x)))))",
}
DEEP_USES = {
    "equal?": "(equal? A B)",
    "member": "(if (member A (list 'p B)) #t #f)",
    "assoc": "(if (assoc A (list (list 'p) (list B 1))) #t #f)",
    "table": "(let ((h (make-hash-table equal?))) (hash-table-set! h A 'v) (if (eq? (hash-table-ref/default h B 'none) 'v) #t #f))",
}


def check_deep(case):
    """two structures of the same shape nested n levels deep whose only difference (if any) is the innermost leaf"""
    a, b = case["leaves"]
    prog = (DEEP_SHAPES[case["shape"]] + "\n(define A (nest %d %s))\n(define B (nest %d %s))\n(write %s)\n(newline)\n"
            % (case["n"], a, case["n"], b, DEEP_USES[case["use"]]))
    r = driver().run(prog, cpu=60)
    if r.status in ("cpu", "wall"):
        return None, "inconclusive"
    if r.status != "ok" or r.end.get("errs"):
        if "#!OOS" in r.out or "#!OOM" in r.out:
            return None, "inconclusive"
        return E.Found("deep/crash", "%s %s\n%s" % (r.status, r.out[-300:], prog)), "ok"
    want = "#t" if a == b else "#f"
    got = r.body.strip()
    if got != want:
        return E.Found("deep/%s-%s" % (case["use"], "false-positive" if want == "#f" else "false-negative"),
                       "%s on structures nested %d deep (%s) with leaves %s / %s answered %s, expected %s\n%s" % (case["use"], case["n"], case["shape"], a, b, got, want, prog)), "ok"
    return None, "ok"


def shards(tier, seed, nshards, known):
    return [{"tier": tier, "seed": seed, "shard": i, "nshards": nshards, "known": known} for i in range(nshards)]


def run_shard(spec):
    res = E.ShardResult()
    quick = spec["tier"] != "thorough"
    rng = random.Random(E.subseed(spec["seed"], "C15", spec["shard"]))
    last = {}

    def test_family(data):
        ch = E.HypChooser(data)
        vg = ValGen(ch)
        vals = dedupe([vg.value(3) for _ in range(2 + ch.n(5))])
        found, status = check_family(vals)
        nt = any(v[0] not in ("char", "sym") for v in vals)
        res.case({"family": [v[2] for v in vals]}, nt, cls=["kind:" + v[0] for v in vals], sample=rng.random() < 0.005)
        if found:
            last["case"] = {"vals": [[v[0], repr(v[1]), v[2]] for v in vals]}
            raise found

    E.hypothesis_search(st.data(), test_family, E.subseed(spec["seed"], "C15f", spec["shard"]), 400 if quick else 40000, res, to_case=lambda d: last.get("case"))

    for _ in range(30 if quick else 2000):
        s1 = [rng.randrange(3) for _ in range(rng.randrange(1, 5))]
        s2 = list(s1) * rng.randrange(1, 4) if rng.random() < 0.6 else [rng.randrange(3) for _ in range(rng.randrange(1, 5))]
        f = check_cycle(s1, s2)
        res.case({"cycle": [s1, s2]}, True, cls="cycle")
        if f:
            res.violation({"cycle": [s1, s2]}, f.signature, f.detail)

    def test_hist(data):
        h = TableHist(E.HypChooser(data))
        prog, expect = h.generate()
        found, status = check_hist(prog, expect)
        if status == "inconclusive":
            res.inconclusive += 1
            return
        res.case({"program": prog}, h.nontrivial, cls=["table:" + h.kind] + sorted(h.tags), sample=h.nontrivial and rng.random() < 0.02)
        if found:
            last["case"] = {"program": prog, "expect": expect}
            raise found

    E.hypothesis_search(st.data(), test_hist, E.subseed(spec["seed"], "C15h", spec["shard"]), 250 if quick else 20000, res, to_case=lambda d: last.get("case"))

    # deeply nested data: the answer must not depend on how deep the difference lies
    k = 0
    for shape in sorted(DEEP_SHAPES):
        for use in sorted(DEEP_USES):
            for n in ([50, 9000, 10500] if quick else [50, 5000, 9000, 9990, 10000, 10001, 10500, 12000, 30000, 100000]):
                for leaves in (["'a", "'a"], ["'a", "'b"], ["1", "1.0"]):
                    k += 1
                    if k % spec["nshards"] != spec["shard"]:
                        continue
                    case = {"deep": True, "shape": shape, "use": use, "n": n, "leaves": leaves}
                    if "KF-C15-primitive-equal-depth" in spec["known"] and use != "equal?" and shape != "cdr" and n > 9990 and leaves[0] != leaves[1]:
                        res.excluded["excluded_by_known_finding:primitive-equal-depth"] += 1
                        continue
                    f, status = check_deep(case)
                    if status == "inconclusive":
                        res.inconclusive += 1
                        continue
                    res.case(case, n > 1000, cls=["deep:" + use])
                    if f:
                        res.violation(case, f.signature, f.detail)
    if _D is not None:
        _D.close()
    return res


def matches_finding(v, f):
    c = v.get("case") or {}
    if f.get("id") == "KF-C15-primitive-equal-depth":
        return bool(c.get("deep")) and c.get("use") != "equal?" and c.get("n", 0) > 9990 and "false-positive" in v.get("signature", "")
    return False


def replay(case):
    if case.get("deep"):
        f, s = check_deep(case)
        if f:
            return {"signature": f.signature, "detail": f.detail, "case": case}
        return None
    if "vals" in case:
        vals = [(k, c, r) for k, c, r in case["vals"]]
        f, s = check_family(vals)
    elif "cycle" in case:
        f = check_cycle(*case["cycle"])
    else:
        f, s = check_hist(case["program"], case["expect"])
    if f:
        return {"signature": f.signature, "detail": f.detail, "case": case}
    return None
