"""C10 -- unreachable memory is recycled and the heap stays well-formed.

Hypothesis-generated allocation/drop histories over a registry of live slots, repeated
for R rounds so that live data stays bounded; small initial heap so that the history
forces heap growth.  Oracles: (1) the hook's heap checker after *every* collection
(exact tiling, address-ordered non-overlapping free list, clear mark bits, every slot of
every live object designates an object start) plus the shadow-mark audit before it;
(2) leak bound: the total heap after the last round is bounded by a constant multiple of
the peak live size and does not keep growing between the middle and the last round.
"""
import os
import random
import re
import tempfile

from hypothesis import strategies as st

from .. import engine as E
from ..worker import Driver

VARIANTS = ["plain", "asan"]
IMPORTS = ["(scheme base)", "(scheme write)", "(srfi 69)"]
RULE = ("case = allocation/drop history (Hypothesis list of alloc/drop/drop-all/burst/collect operations over 12 registry "
        "slots; object kinds pair, list, vector, string, bytevector, bignum, flonum, record, closure, continuation, string "
        "port, hash table; sizes 1 word .. larger than the initial heap) run for R rounds on a 256 KB initial heap; "
        "non-trivial iff during the history the sweep merged a freed object with its left neighbour, with its right "
        "neighbour, with both, and the heap grew at least once (hook counters); distinct by history digest")
ASSUMPTIONS = ["leak bound constants calibrated on the unchanged tree with >= 3x head-room",
               "the heap checker of harness/verif_gc.h is the definition of 'well-formed'"]

PRELUDE = r"""
(define reg (make-vector 12 #f))
(define-record-type blob (make-blob a b c) blob? (a blob-a) (b blob-b) (c blob-c))
(define (mk kind n)
  (case kind
    ((pair) (cons n n))
    ((list) (let lp ((i 0) (acc '())) (if (< i n) (lp (+ i 1) (cons i acc)) acc)))
    ((vector) (make-vector n 'v))
    ((string) (make-string n #\s))
    ((ustring) (make-string n #\x3bb))
    ((bytevector) (make-bytevector n 1))
    ((bignum) (expt 7 n))
    ((flonum) (* 1.5 n))
    ((record) (make-blob n (make-vector (modulo n 50) n) (number->string n)))
    ((closure) (let ((v (make-vector (modulo n 100) n))) (lambda () (vector-length v))))
    ((continuation) (call/cc (lambda (k) (cons k (make-vector (modulo n 64) 0)))))
    ((port) (let ((p (open-output-string))) (write-string (make-string (modulo n 2000) #\p) p) p))
    ((table) (let ((h (make-hash-table equal?))) (do ((i 0 (+ i 1))) ((= i (modulo n 200)) h) (hash-table-set! h i (list i)))))
    (else #f)))
(define (burst kind n count)
  (do ((i 0 (+ i 1))) ((= i count)) (mk kind n)))
(define (stats-line tag)
  (let ((s (verif-stats)))
    (write (list tag (verif-heap-total) (vector-ref s 8) (vector-ref s 3) (vector-ref s 4) (vector-ref s 5) (vector-ref s 6) (vector-ref s 7) (vector-ref s 1)))
    (newline)))
"""

KINDS = ["pair", "list", "vector", "string", "ustring", "bytevector", "bignum", "flonum", "record", "closure",
         "continuation", "port", "table"]
SIZES = [0, 1, 2, 3, 4, 7, 8, 15, 16, 31, 33, 64, 100, 255, 1000, 4000, 20000, 70000, 300000, 1000000]

BIG = [70000, 300000, 1000000]
BIGKINDS = ["vector", "string", "ustring", "bytevector", "list"]
op_alloc = st.one_of(st.tuples(st.just("alloc"), st.integers(0, 11), st.sampled_from(KINDS), st.sampled_from(SIZES)),
                     st.tuples(st.just("alloc"), st.integers(0, 11), st.sampled_from(BIGKINDS), st.sampled_from(BIG)))
op_drop = st.tuples(st.just("drop"), st.integers(0, 11))
op_dropall = st.tuples(st.just("dropall"))
op_burst = st.tuples(st.just("burst"), st.sampled_from(KINDS), st.sampled_from(SIZES[:14]), st.integers(1, 60))
op_collect = st.tuples(st.just("collect"))
history = st.tuples(st.lists(st.one_of(op_alloc, op_alloc, op_drop, op_burst, op_dropall, op_collect), min_size=4, max_size=40),
                    st.sampled_from([8, 12, 16]))


def size_for(kind, n):
    if kind == "bignum":
        return min(n, 4000)
    if kind == "list":
        return min(n, 20000)
    return n


def request_bytes(op):
    if op[0] == "alloc":
        kind, n = op[2], size_for(op[2], op[3])
    elif op[0] == "burst":
        kind, n = op[1], size_for(op[1], op[2])
    else:
        return 0
    per = {"vector": 8, "list": 32, "string": 1, "ustring": 2, "bytevector": 1, "bignum": 1, "port": 1, "table": 100, "record": 8, "closure": 8, "continuation": 64}
    return n * per.get(kind, 1) + 64


def render(hist):
    ops, rounds = hist
    body = []
    for op in ops:
        if op[0] == "alloc":
            body.append("(vector-set! reg %d (mk '%s %d))" % (op[1], op[2], size_for(op[2], op[3])))
        elif op[0] == "drop":
            body.append("(vector-set! reg %d #f)" % op[1])
        elif op[0] == "dropall":
            body.append("(vector-fill! reg #f)")
        elif op[0] == "burst":
            body.append("(burst '%s %d %d)" % (op[1], size_for(op[1], op[2]), op[3]))
        elif op[0] == "collect":
            body.append("(verif-gc)")
    return ("(stats-line 'start)\n"
            "(do ((round 0 (+ round 1))) ((= round %d))\n  %s\n  (verif-gc) (stats-line round))\n"
            "(vector-fill! reg #f) (verif-gc) (stats-line 'end)\n" % (rounds, "\n  ".join(body)))


_DRIVERS = {}


def driver(variant):
    if variant not in _DRIVERS:
        f = tempfile.NamedTemporaryFile("w", suffix=".scm", delete=False, dir="/var/tmp")
        f.write(PRELUDE)
        f.close()
        try:
            _DRIVERS[variant] = Driver(variant, imports=IMPORTS, prelude=f.name, heap="256K/512M")
        finally:
            os.unlink(f.name)
    return _DRIVERS[variant]


def parse_stats(body):
    rows = []
    for ln in body.split("\n"):
        m = re.match(r"\((\S+) ([0-9 ]+)\)$", ln.strip())
        if m:
            rows.append((m.group(1), [int(x) for x in m.group(2).split()]))
    return rows


def evaluate(hist, variant="plain"):
    """returns (Found-or-None, info)"""
    d = driver(variant)
    prog = render(hist)
    r = d.run(prog, cpu=120, check=2, poison=1 if variant == "asan" else 0, scribble=0 if variant == "asan" else 1)
    info = {}
    if r.status in ("cpu", "wall"):
        return None, {"inconclusive": True}
    if r.status != "ok":
        return E.Found("crash/" + (r.sanitizer_summary()[:120] if r.err else "signal%s" % r.code),
                       "history run died: status=%s code=%s\n%s\nprogram:\n%s" % (r.status, r.code, r.err[-2500:], prog)), info
    if r.end.get("check_fail", 0):
        return E.Found("heap-check/" + r.end["msg"].split(" at ")[0], "heap checker: %s\nprogram:\n%s" % (r.end["msg"], prog)), info
    if "#!OOM" in r.body:
        return None, {"oom": True}
    rows = parse_stats(r.body)
    if len(rows) < 3:
        return None, {"inconclusive": True}
    start = rows[0][1]
    rounds = [x for x in rows if x[0].isdigit()]
    end = rows[-1][1]
    # columns: heap-total live merge_none merge_left merge_right merge_both grows gcs
    d_none, d_left, d_right, d_both, d_grows = [end[k] - start[k] for k in (2, 3, 4, 5, 6)]
    info = {"merge_left": d_left, "merge_right": d_right, "merge_both": d_both, "grows": d_grows, "gcs": end[7] - start[7]}
    info["nontrivial"] = d_left > 0 and d_right > 0 and d_both > 0 and d_grows > 0
    peak_live = max(x[1][1] for x in rounds) if rounds else 0
    initial_total = start[0]
    last_total = rounds[-1][1][0]
    mid_total = rounds[len(rounds) // 2 - 1][1][0] if len(rounds) >= 2 else last_total
    largest = 64 + max([request_bytes(o) for o in hist[0]] + [0])
    bound = max(initial_total, 16 * peak_live) + 8 * largest + (4 << 20)
    info["ratio"] = last_total / max(1, peak_live)
    if last_total > bound:
        return E.Found("leak/total-exceeds-bound", "heap total %d after %d rounds exceeds bound %d (initial %d, peak live %d)\nrows=%r\nprogram:\n%s"
                       % (last_total, len(rounds), bound, initial_total, peak_live, rows, prog)), info
    # one doubling is what a non-compacting collector may need once fragmentation bites (seen on the unchanged tree: 8 MB -> 16 MB
    # in round 5 of 8 with 3 MB live, then flat); a leak keeps growing: two successive growth steps, or a tripling
    if len(rounds) >= 8:
        t1, t2 = rounds[len(rounds) // 3][1][0], rounds[(2 * len(rounds)) // 3][1][0]
        if (last_total > 1.25 * t2 + largest and t2 > 1.25 * t1 + largest) or last_total > 3 * t1 + 2 * largest:
            return E.Found("leak/keeps-growing", "heap total grew from %d (first third) over %d (second third) to %d (last round) under a stationary workload\nrows=%r\nprogram:\n%s"
                           % (t1, t2, last_total, rows, prog)), info
    return None, info


# ---------------------------------------------------------------------------
# stationary workloads with a tight, calibrated bound (the histories above bound the heap by 16 x peak live data, which
# a collector that merely recycles badly still meets)

WORKLOADS = {
    # growing request sizes with nothing kept: every request fits into what the previous collection freed
    "w1": """(define (w1 n step) (do ((i 1 (+ i step))) ((> i n)) (make-vector i 0)))
(write (list 'start (verif-heap-total) 0)) (newline)
(do ((r 0 (+ r 1))) ((= r %(rounds)d)) (w1 %(n)d %(step)d) (verif-gc) (write (list r (verif-heap-total) (- (verif-heap-total) (verif-heap-free)))) (newline))""",
    # churn of large objects, two of them live at any time
    "w2": """(define keep (vector #f #f))
(write (list 'start (verif-heap-total) 0)) (newline)
(do ((r 0 (+ r 1))) ((= r %(rounds)d)) (do ((i 0 (+ i 1))) ((= i %(count)d)) (vector-set! keep (modulo i 2) (make-bytevector %(size)d 0))) (verif-gc) (write (list r (verif-heap-total) (- (verif-heap-total) (verif-heap-free)))) (newline))""",
    # a large object is dropped and collected, then a larger one (less than twice the size) is requested
    "w3": """(write (list 'start (verif-heap-total) 0)) (newline)
(define x (make-bytevector %(a)d 0)) (write (list 0 (verif-heap-total) %(a)d)) (newline) (set! x #f) (verif-gc)
(define y (make-bytevector %(b)d 0)) (write (list 1 (verif-heap-total) %(b)d)) (newline)""",
}


def evaluate_workload(case, variant="plain"):
    prog = WORKLOADS[case["workload"]] % case
    r = driver(variant).run(prog, cpu=120, check=1)
    if r.status in ("cpu", "wall"):
        return None, "inconclusive"
    if r.status != "ok":
        return E.Found("crash/workload", "%s %s\n%s" % (r.status, r.err[-800:], prog)), "ok"
    if r.end.get("check_fail", 0):
        return E.Found("heap-check/" + r.end["msg"].split(" at ")[0], "heap checker: %s\nprogram:\n%s" % (r.end["msg"], prog)), "ok"
    if "#!OOM" in r.body:
        return E.Found("workload/out-of-memory", "a stationary workload ran out of the 512 MB heap limit\n%s" % prog), "ok"
    rows = parse_stats(r.body)
    if len(rows) < 3:
        return None, "inconclusive"
    start = rows[0][1][0]
    totals = [x[1][0] for x in rows[1:]]
    w = case["workload"]
    if w == "w1":
        largest = 8 * case["n"] + 64
        # room for one doubling of the preloaded heap (legitimate if its free space is fragmented) plus a few requests
        bound = 2 * start + 4 * largest + (4 << 20)
    elif w == "w2":
        largest = case["size"]
        # two live objects plus the one being allocated, each needing room inside one segment, segments doubling: the unchanged
        # tree reaches start + 6..8.4 x size (sizes 1-9 MB); a collector that stops recycling exceeds 50 x within the 5 rounds
        bound = start + 12 * largest + (8 << 20)
    else:
        largest = case["b"]
        bound = start + 6 * largest + (4 << 20)
    if max(totals) > bound:
        return E.Found("leak/workload-%s-exceeds-bound" % w, "heap total reaches %d, bound %d (start %d, largest request %d): freed memory is not reused\nrows=%r\nprogram:\n%s"
                       % (max(totals), bound, start, largest, rows, prog)), "ok"
    if w in ("w1", "w2") and totals[-1] > 1.25 * totals[0] + largest:
        return E.Found("leak/workload-%s-keeps-growing" % w, "heap total grows from %d (first round) to %d (last round) under a stationary workload\nrows=%r\nprogram:\n%s"
                       % (totals[0], totals[-1], rows, prog)), "ok"
    if w == "w3":
        # sound only when the first object forced a new segment: that segment (size = the growth) is entirely free again after
        # the object is dropped and collected, so a request that fits into it must not grow the heap a second time
        seg = totals[0] - start
        if seg > 0 and case["b"] <= 0.9 * (seg - (64 << 10)) and totals[1] > totals[0] + (64 << 10):
            return E.Found("leak/freed-chunk-not-reused", "a %d-byte object opened a new %d-byte segment; after it was dropped and collected the request for %d bytes grew the heap again from %d to %d\nprogram:\n%s"
                           % (case["a"], seg, case["b"], totals[0], totals[1], prog)), "ok"
    return None, "ok"


def gen_workload(rng):
    w = rng.choice(["w1", "w2", "w3"])
    if w == "w1":
        return {"workload": w, "n": rng.choice([2000, 8000, 16000, 40000]), "step": rng.choice([1, 3, 7, 50]), "rounds": 5}
    if w == "w2":
        return {"workload": w, "size": rng.choice([300000, 1 << 20, 3000000, 4 << 20, 9000000]), "count": rng.choice([6, 20, 40]), "rounds": 5}
    # large enough to need a segment of its own (the preloaded heap has a few MB free)
    a = rng.choice([6 << 20, 9000000, 12 << 20, 20000000])
    return {"workload": w, "a": a, "b": int(a * rng.choice([1.05, 1.2, 1.4, 1.6]))}


def shards(tier, seed, nshards, known):
    return [{"tier": tier, "seed": seed, "shard": i, "nshards": nshards, "known": known} for i in range(nshards)]


def run_shard(spec):
    res = E.ShardResult()
    quick = spec["tier"] != "thorough"
    variant = "asan" if spec["shard"] % 4 == 0 else "plain"
    n = (250 if variant == "plain" else 100) if quick else (6000 if variant == "plain" else 2000)

    def test(h):
        found, info = evaluate(h, variant)
        if info.get("inconclusive"):
            res.inconclusive += 1
        if info.get("oom"):
            res.excluded["out_of_memory"] += 1
        res.case({"ops": [list(o) for o in h[0]], "rounds": h[1], "build": variant}, bool(info.get("nontrivial")),
                 cls=["build:" + variant] + [k for k in ("merge_left", "merge_right", "merge_both", "grows") if info.get(k)])
        res.extra["collections_checked"] = res.extra.get("collections_checked", 0) + info.get("gcs", 0)
        if "ratio" in info:
            res.extra["max_total_over_peak_live"] = max(res.extra.get("max_total_over_peak_live", 0), round(info["ratio"], 2))
        if found:
            raise found

    E.hypothesis_search(history, test, E.subseed(spec["seed"], "C10", spec["shard"]), n, res,
                        to_case=lambda h: {"ops": [list(o) for o in h[0]], "rounds": h[1], "build": variant})
    rng = random.Random(E.subseed(spec["seed"], "C10w", spec["shard"]))
    for _ in range(6 if quick else 200):
        case = gen_workload(rng)
        found, status = evaluate_workload(case, "plain")
        if status == "inconclusive":
            res.inconclusive += 1
            continue
        res.case(case, True, cls=["workload:" + case["workload"]], sample=rng.random() < 0.05)
        if found:
            res.violation(dict(case), found.signature, found.detail)
    for d in _DRIVERS.values():
        d.close()
    _DRIVERS.clear()
    return res


def replay(case):
    if "workload" in case:
        found, status = evaluate_workload(case, "plain")
        if found:
            return {"signature": found.signature, "detail": found.detail, "case": case}
        return None
    h = ([tuple(o) for o in case["ops"]], case["rounds"])
    found, info = evaluate(h, case.get("build", "plain"))
    if found:
        return {"signature": found.signature, "detail": found.detail, "case": case}
    return None
