"""C16 -- weak references and finalizers track reachability exactly.

A. ephemeron histories (Hypothesis): objects live in a root vector, in the values of
   ephemerons, or nowhere; steps create / drop / copy objects, make ephemerons (key and
   value components reached through roots or through other ephemerons' values), read a key
   back into the roots, drop ephemerons, allocate garbage, and collect.  After every step the
   program prints (broken? key value) of every ephemeron; an adaptive reachability model in
   Python (roots + values of ephemerons whose key is live, to a fixpoint) says for every
   ephemeron: must be intact (key strongly live at every step since creation), must be
   broken (an explicit collection ran while the key was dead), or either (consistency only).
   The same histories run with forced collection schedules and the poisoned heap (ASan), so a
   value freed under a live key is a use-after-poison or a heap-checker report.
B. port / descriptor histories: open (text/binary, input/output, via fileno), alias, close,
   drop, collect, read; after every explicit collection the number of open descriptors of the
   process equals base + live unclosed ports (released, exactly once, never while reachable:
   every reachable port still reads the next character of its file).
C. exhaustion: with RLIMIT_NOFILE=40, 400 ports opened and dropped unclosed must all open.
"""
import os
import random
import shutil
import tempfile

from hypothesis import strategies as st

from .. import engine as E
from ..worker import Driver

VARIANTS = ["asan", "plain"]
IMPORTS = ["(scheme base)", "(scheme write)", "(scheme file)", "(chibi weak)", "(chibi filesystem)"]
PRELUDE = os.path.join(os.path.dirname(os.path.abspath(__file__)), "..", "..", "harness", "scm", "prelude_c16.scm")
RULE = ("case = history of 4-40 steps; A: over 8 root slots and 8 ephemeron slots, non-trivial iff some ephemeron is observed broken "
        "and some other ephemeron with a live key is observed intact after a collection, or a key is held only through another "
        "ephemeron's value; B: over 8 port slots, non-trivial iff a port is dropped unclosed and a later collection is followed by "
        "a descriptor count; C: one run per opener; distinct by history digest")
ASSUMPTIONS = ["(verif-gc) of the driver is one full collection (sexp_gc)",
               "the descriptor count is read from /proc/self/fd of the forked child",
               "the descriptor of a fileno object that still has open ports is owned by those ports (closing the last port closes it)"]

NSLOT = 8
_D = {}
_DIR = {}


def scratch():
    pid = os.getpid()
    if pid not in _DIR:
        d = tempfile.mkdtemp(prefix="c16-", dir="/var/tmp")
        for j in range(4):
            with open(os.path.join(d, "f%d" % j), "w") as f:
                f.write("".join(chr(ord("a") + (j * 7 + k) % 26) for k in range(200)))
        _DIR[pid] = d
    return _DIR[pid]


def driver(variant):
    if variant not in _D:
        _D[variant] = Driver(variant, imports=IMPORTS, prelude=PRELUDE, cwd=scratch())
    return _D[variant]


def cleanup():
    for d in _D.values():
        d.close()
    _D.clear()
    for d in _DIR.values():
        shutil.rmtree(d, ignore_errors=True)
    _DIR.clear()


# ---------------------------------------------------------------------------
# A. ephemerons

class EphModel(object):
    def __init__(self):
        self.roots = [None] * NSLOT
        self.ephs = [None] * NSLOT     # dict(key, val[list of ids], ever_dead, must_break, broken)
        self.next_id = 1

    def live(self):
        live = set(x for x in self.roots if x is not None)
        changed = True
        while changed:
            changed = False
            for e in self.ephs:
                if e and not e["broken"] and e["key"] in live:
                    for v in e["val"]:
                        if v not in live:
                            live.add(v)
                            changed = True
        return live

    def paths(self):
        """id -> scheme expression reaching it (only for live objects)"""
        live = self.live()
        out = {}
        for r, x in enumerate(self.roots):
            if x is not None:
                out.setdefault(x, "(at-root %d)" % r)
        for i, e in enumerate(self.ephs):
            if e and not e["broken"] and e["key"] in live and not e["ever_dead"]:
                for j, v in enumerate(e["val"]):
                    out.setdefault(v, "(at-eph %d %d)" % (i, j))
        return out

    def after_step(self):
        live = self.live()
        for e in self.ephs:
            if e and e["key"] not in live:
                e["ever_dead"] = True


def gen_eph_history(ch, nsteps):
    """returns (list of (scheme text, kind, payload)), evaluated adaptively by run_eph"""
    m = EphModel()
    steps = []
    tags = set()
    for _ in range(nsteps):
        kind = ch.pick(["new", "new", "eph", "eph", "drop", "drop", "copy", "gc", "gc", "resurrect", "dropeph", "churn", "holes"])
        paths = m.paths()
        if kind == "new":
            r = ch.n(NSLOT)
            i = m.next_id
            m.next_id += 1
            m.roots[r] = i
            steps.append(("(begin (vector-set! roots %d (make-obj %d)) #t)" % (r, i), "new", None))
        elif kind == "drop":
            r = ch.n(NSLOT)
            m.roots[r] = None
            steps.append(("(begin (vector-set! roots %d #f) #t)" % r, "drop", None))
        elif kind == "copy" and paths:
            r = ch.n(NSLOT)
            i = ch.pick(sorted(paths))
            steps.append(("(begin (vector-set! roots %d %s) #t)" % (r, paths[i]), "copy", None))
            if not paths[i].startswith("(at-root"):
                tags.add("copy-from-value")
            m.roots[r] = i
        elif kind == "eph" and paths:
            s = ch.n(NSLOT)
            k = ch.pick(sorted(paths))
            val_ids = []
            val_text = []
            for _ in range(ch.n(4)):
                if ch.p(0.5) and paths:
                    v = ch.pick(sorted(paths))
                    val_ids.append(v)
                    val_text.append(paths[v])
                else:
                    v = m.next_id
                    m.next_id += 1
                    val_ids.append(v)
                    val_text.append("(make-obj %d)" % v)
            if ch.p(0.15):
                val_ids.append(k)               # the value refers to its own key
                val_text.append(paths[k])
                tags.add("value-refers-to-own-key")
            if not paths[k].startswith("(at-root"):
                tags.add("key-held-through-a-value")
            if val_text and ch.p(0.35):
                # the value is a large vector (allocated high in the heap), the ephemeron itself a small object
                tags.add("big-value")
                steps.append(("(begin (vector-set! ephs %d (make-ephemeron %s (big-value (list %s)))) #t)" % (s, paths[k], " ".join(val_text)), "eph", None))
            else:
                steps.append(("(begin (vector-set! ephs %d (make-ephemeron %s (list %s))) #t)" % (s, paths[k], " ".join(val_text)), "eph", None))
            m.ephs[s] = {"key": k, "val": val_ids, "ever_dead": False, "must_break": False, "broken": False}
        elif kind == "gc":
            steps.append(("(begin (verif-gc) #t)", "gc", None))
        elif kind == "resurrect":
            cands = [i for i, e in enumerate(m.ephs) if e and not e["broken"]]
            if not cands:
                continue
            e = ch.pick(cands)
            r = ch.n(NSLOT)
            steps.append(("(let ((k (ephemeron-key (vector-ref ephs %d)))) (vector-set! roots %d k) (write (obj-id k)) (newline) #t)" % (e, r), "resurrect", (e, r)))
            # model updated adaptively in run_eph; here assume success for path generation only if the key is live
            if m.ephs[e]["key"] in m.live():
                m.roots[r] = m.ephs[e]["key"]
            else:
                # outcome unknown: stop generating (the rest of the history would depend on it)
                tags.add("resurrect-dead-key")
                steps.append(("(begin (verif-gc) #t)", "gc", None))
                break
        elif kind == "dropeph":
            s = ch.n(NSLOT)
            m.ephs[s] = None
            steps.append(("(begin (vector-set! ephs %d #f) #t)" % s, "dropeph", s))
        elif kind == "holes":
            steps.append(("(begin (junk-pairs %d) (verif-gc) #t)" % ch.pick([50, 500, 5000]), "gc", None))
        elif kind == "churn":
            n = ch.pick([10, 1000, 100000])
            steps.append(("(begin (make-vector %d 0) (make-string %d #\\a) #t)" % (n, n), "churn", None))
        else:
            continue
        m.after_step()
    return steps, tags


def parse_obs(line):
    """((intact 3 (4 5)) - (broken #f none) ...) -> list"""
    toks = line.replace("(", " ( ").replace(")", " ) ").split()
    pos = [0]

    def rd():
        t = toks[pos[0]]
        pos[0] += 1
        if t == "(":
            out = []
            while toks[pos[0]] != ")":
                out.append(rd())
            pos[0] += 1
            return out
        try:
            return int(t)
        except ValueError:
            return t
    return rd()


def eph_program(steps):
    return "\n".join("%s\n(observe)" % s[0] for s in steps) + "\n"


def judge_eph(steps, body):
    """replays the model along the printed observations; returns (why or None, stats)"""
    # rebuild the model from the step texts (they carry everything) -- simpler: re-simulate with the same rules
    import re
    m = EphModel()
    lines = [l for l in body.split("\n") if l.strip()]
    li = 0
    stats = {"broken_seen": 0, "intact_after_gc": 0, "either": 0}
    gc_done = False
    for si, (text, kind, payload) in enumerate(steps):
        if kind == "new":
            r, i = map(int, re.match(r"\(begin \(vector-set! roots (\d+) \(make-obj (\d+)\)\)", text).groups())
            m.roots[r] = i
            m.next_id = max(m.next_id, i + 1)
        elif kind == "drop":
            r = int(re.match(r"\(begin \(vector-set! roots (\d+) #f\)", text).group(1))
            m.roots[r] = None
        elif kind == "copy":
            mm = re.match(r"\(begin \(vector-set! roots (\d+) \((at-root|at-eph) (\d+)(?: (\d+))?\)\)", text)
            r = int(mm.group(1))
            m.roots[r] = m.roots[int(mm.group(3))] if mm.group(2) == "at-root" else m.ephs[int(mm.group(3))]["val"][int(mm.group(4))]
        elif kind == "eph":
            mm = re.match(r"\(begin \(vector-set! ephs (\d+) \(make-ephemeron \((at-root|at-eph) (\d+)(?: (\d+))?\) \((?:big-value \()?list", text)
            tail = ")))) #t)" if "(big-value (list" in text else "))) #t)"
            items_text = text[mm.end():len(text) - len(tail)]
            s = int(mm.group(1))
            key = m.roots[int(mm.group(3))] if mm.group(2) == "at-root" else m.ephs[int(mm.group(3))]["val"][int(mm.group(4))]
            vals = []
            for vm in re.finditer(r"\((at-root|at-eph|make-obj) (\d+)(?: (\d+))?\)", items_text):
                if vm.group(1) == "at-root":
                    vals.append(m.roots[int(vm.group(2))])
                elif vm.group(1) == "at-eph":
                    vals.append(m.ephs[int(vm.group(2))]["val"][int(vm.group(3))])
                else:
                    vals.append(int(vm.group(2)))
            m.ephs[s] = {"key": key, "val": vals, "ever_dead": False, "must_break": False, "broken": False}
        elif kind == "dropeph":
            m.ephs[payload] = None
        elif kind == "gc":
            live = m.live()
            for e in m.ephs:
                if e and e["key"] not in live:
                    e["must_break"] = True
            gc_done = True
        elif kind == "resurrect":
            e, r = payload
            if li >= len(lines):
                return "output ends early at step %d" % si, stats
            got = lines[li].strip()
            li += 1
            eph = m.ephs[e]
            if got == "#f":
                if not eph["ever_dead"] and eph["key"] in m.live():
                    return "step %d: (ephemeron-key e%d) returned #f although its key %d has been strongly reachable since the ephemeron was made" % (si, e, eph["key"]), stats
                eph["broken"] = True
                m.roots[r] = None
            else:
                if int(got) != eph["key"]:
                    return "step %d: (ephemeron-key e%d) returned object %s, the key is %d" % (si, e, got, eph["key"]), stats
                if eph["must_break"]:
                    return "step %d: ephemeron e%d still has its key %d after a collection that ran while the key was unreachable" % (si, e, eph["key"]), stats
                m.roots[r] = eph["key"]
                eph["ever_dead"] = False
        m.after_step()
        if li >= len(lines):
            return "output ends early at step %d (%s)" % (si, text), stats
        try:
            obs = parse_obs(lines[li])
        except Exception:
            return "unparsable observation at step %d: %r" % (si, lines[li][:200]), stats
        li += 1
        live = m.live()
        for i, e in enumerate(m.ephs):
            o = obs[i]
            if e is None:
                if o != "-":
                    return "step %d: slot %d should be empty, saw %r" % (si, i, o), stats
                continue
            if o == "-":
                return "step %d: ephemeron %d missing" % (si, i), stats
            state, key, val = o
            # internal consistency
            if state == "broken" and (key != "#f" or val != "none"):
                return "step %d (%s): broken ephemeron e%d still shows key %r / value %r" % (si, text, i, key, val), stats
            if state == "intact" and (key != e["key"] or val != e["val"]):
                return "step %d (%s): intact ephemeron e%d shows key %r value %r, made with key %d value %r" % (si, text, i, key, val, e["key"], e["val"]), stats
            if e["broken"] and state != "broken":
                return "step %d: ephemeron e%d was broken earlier and is intact again" % (si, i), stats
            if state == "broken":
                if not e["ever_dead"]:
                    return ("step %d (%s): ephemeron e%d is broken although its key %d has been strongly reachable at every step since it was made"
                            % (si, text, i, e["key"])), stats
                if not e["broken"]:
                    stats["broken_seen"] += 1
                e["broken"] = True
            else:
                if e["must_break"]:
                    return ("step %d (%s): ephemeron e%d is intact although a full collection ran while its key %d was unreachable"
                            % (si, text, i, e["key"])), stats
                if e["ever_dead"]:
                    stats["either"] += 1
                elif gc_done:
                    stats["intact_after_gc"] += 1
    return None, stats


def run_eph(steps, variant, gc):
    prog = eph_program(steps)
    r = driver(variant).run(prog, cpu=20, wall=60, gc=gc, check=1 if gc is None else None, poison=1 if variant == "asan" else None, finalgc=1)
    return r, prog


# ---------------------------------------------------------------------------
# B. ports

def gen_port_history(ch, nsteps):
    ports = {}          # id -> dict(kind, file, pos, closed, fn)
    slots = [None] * NSLOT
    steps = []
    tags = set()
    nid = [0]
    for _ in range(nsteps):
        kind = ch.pick(["open-in", "open-in", "open-bin", "open-out", "open-fd", "open-pair", "alias", "close", "drop", "drop", "gc", "gc", "read", "count", "churn"])
        if kind == "open-pair":
            # two ports on one fileno object: the descriptor belongs to both, it stays open until the last of them is
            # closed or collected (reads are not modelled for these: the ports share the file offset)
            s1, s2 = ch.n(NSLOT), ch.n(NSLOT)
            if s1 == s2:
                continue
            j = ch.n(4)
            nid[0] += 2
            fid = "F%d" % nid[0]
            ports[nid[0] - 1] = {"kind": "in", "file": j, "pos": 0, "closed": False, "fileno": fid, "noread": True}
            ports[nid[0]] = {"kind": "in", "file": j, "pos": 0, "closed": False, "fileno": fid, "noread": True}
            slots[s1], slots[s2] = nid[0] - 1, nid[0]
            steps.append(("(let ((fn (open \"f%d\" open/read))) (vector-set! ports %d (open-input-file-descriptor fn)) (vector-set! ports %d (open-input-file-descriptor fn)) #t)" % (j, s1, s2), "open", None))
            tags.add("shared-fileno")
            continue
        if kind in ("open-in", "open-bin", "open-fd"):
            s = ch.n(NSLOT)
            j = ch.n(4)
            nid[0] += 1
            ports[nid[0]] = {"kind": "in", "file": j, "pos": 0, "closed": False}
            slots[s] = nid[0]
            opener = {"open-in": "(open-input-file \"f%d\")", "open-bin": "(open-binary-input-file \"f%d\")",
                      "open-fd": "(open-input-file-descriptor (open \"f%d\" open/read))"}[kind] % j
            steps.append(("(begin (vector-set! ports %d %s) #t)" % (s, opener), "open", None))
            tags.add(kind)
        elif kind == "open-out":
            s = ch.n(NSLOT)
            nid[0] += 1
            ports[nid[0]] = {"kind": "out", "file": None, "pos": 0, "closed": False}
            slots[s] = nid[0]
            steps.append(("(begin (vector-set! ports %d (open-output-file \"out%d\")) #t)" % (s, nid[0] % 3), "open", None))
        elif kind == "alias":
            a, b = ch.n(NSLOT), ch.n(NSLOT)
            slots[b] = slots[a]
            steps.append(("(begin (vector-set! ports %d (vector-ref ports %d)) #t)" % (b, a), "alias", None))
        elif kind == "close":
            s = ch.n(NSLOT)
            if slots[s] is None:
                continue
            ports[slots[s]]["closed"] = True
            steps.append(("(begin (close-port (vector-ref ports %d)) #t)" % s, "close", None))
        elif kind == "drop":
            s = ch.n(NSLOT)
            if slots[s] is not None and not ports[slots[s]]["closed"] and slots.count(slots[s]) == 1:
                tags.add("dropped-unclosed")
            slots[s] = None
            steps.append(("(begin (vector-set! ports %d #f) #t)" % s, "drop", None))
        elif kind == "gc":
            steps.append(("(begin (verif-gc) #t)", "gc", None))
        elif kind == "churn":
            steps.append(("(begin (make-vector 50000 0) #t)", "churn", None))
        elif kind == "read":
            s = ch.n(NSLOT)
            pid = slots[s]
            if pid is None:
                continue
            p = ports[pid]
            if p["closed"] or p.get("noread"):
                continue
            if p["kind"] == "in":
                content = "".join(chr(ord("a") + (p["file"] * 7 + k) % 26) for k in range(200))
                exp = "#\\" + content[p["pos"]] if p["pos"] < 200 else "eof"
                p["pos"] += 1
            else:
                exp = "wrote"
            steps.append(("(begin (write (port-state %d)) (newline) #t)" % s, "read", exp))
        elif kind == "count":
            # an explicit collection first: afterwards exactly the live unclosed ports hold descriptors
            live = set(x for x in slots if x is not None)
            n = len(set(ports[x].get("fileno", x) for x in live if not ports[x]["closed"]))
            steps.append(("(begin (verif-gc) (write (verif-fd-count)) (newline) #t)", "count", n))
            if "dropped-unclosed" in tags:
                tags.add("count-after-drop")
    return steps, tags


def judge_ports(steps, body):
    lines = [l for l in body.split("\n") if l.strip()]
    if not lines:
        return "no output"
    try:
        base = int(lines[0])
    except ValueError:
        return "unparsable base count %r" % lines[0][:100]
    li = 1
    for si, (text, kind, payload) in enumerate(steps):
        if kind == "read":
            if li >= len(lines):
                return "output ends early"
            got = lines[li].strip()
            li += 1
            if got != str(payload):
                return "step %d (%s): a reachable, unclosed port answered %s, expected %s (its descriptor was released while the port was reachable, or a released descriptor was closed twice)" % (si, text, got, payload)
        elif kind == "count":
            if li >= len(lines):
                return "output ends early"
            got = int(lines[li])
            li += 1
            if got != base + payload:
                return "step %d: %d descriptors open after a full collection, expected %d (base %d + %d reachable unclosed ports)" % (si, got, base + payload, base, payload)
    return None


def run_ports(steps, variant, gc):
    prog = "(write (verif-fd-count)) (newline)\n" + "\n".join(s[0] for s in steps) + "\n"
    r = driver(variant).run(prog, cpu=20, wall=60, gc=gc, check=1 if gc is None else None, poison=1 if variant == "asan" else None)
    return r, prog


# ---------------------------------------------------------------------------

def classify(r, prog, gc):
    if r.status == "crash":
        return E.Found("crash", r.sanitizer_summary() + "\n" + r.err[:1500] + "\ngc=%s\n%s" % (gc, prog))
    if r.status in ("cpu", "wall"):
        return "inconclusive"
    if r.status != "ok":
        return E.Found("exited", "%r\ngc=%s\n%s" % (r, gc, prog))
    if r.end.get("check_fail"):
        return E.Found("heap-check", "%s\ngc=%s\n%s" % (r.end.get("msg"), gc, prog))
    if r.end.get("errs"):
        return E.Found("error", "uncaught error %s\ngc=%s\n%s" % (r.out[-500:], gc, prog))
    return None


def gc_schedule(ch):
    k = ch.pick(["none", "none", "none", "every", "random"])
    if k == "none":
        return None
    if k == "every":
        n = ch.pick([23, 100, 1000])
        return "every:%d:%d" % (n, ch.n(n))
    return "random:%d:%d" % (ch.pick([20, 100, 1000]), ch.n(1000))


def check_eph_case(case):
    steps = [tuple(s) for s in case["steps"]]
    r, prog = run_eph(steps, case["variant"], case.get("gc"))
    c = classify(r, prog, case.get("gc"))
    if c == "inconclusive":
        return None, "inconclusive", {}
    if c:
        return c, "ok", {}
    why, stats = judge_eph(steps, r.body)
    if why:
        return E.Found("ephemeron/" + ("spuriously-broken" if "is broken although" in why or "returned #f although" in why else
                                       "not-broken" if "is intact although" in why or "still has its key" in why else "state"),
                       "%s\ngc=%s\n%s\n--- output\n%s" % (why, case.get("gc"), prog, r.body[-1500:])), "ok", stats
    return None, "ok", stats


def check_port_case(case):
    steps = [tuple(s) for s in case["steps"]]
    r, prog = run_ports(steps, case["variant"], case.get("gc"))
    c = classify(r, prog, case.get("gc"))
    if c == "inconclusive":
        return None, "inconclusive"
    if c:
        return c, "ok"
    why = judge_ports(steps, r.body)
    if why:
        return E.Found("ports/" + ("descriptor-count" if "descriptors open" in why else "reachable-port-broken"), "%s\ngc=%s\n%s\n--- output\n%s" % (why, case.get("gc"), prog, r.body[-800:])), "ok"
    return None, "ok"


OPENERS = ["(open-input-file \"f0\")", "(open-binary-input-file \"f1\")", "(open-output-file \"outx\")", "(open-binary-output-file \"outy\")"]


def check_exhaustion(variant, opener, n=400):
    prog = ("(define (go i acc) (if (= i %d) acc (let ((p %s)) (go (+ i 1) (if (port? p) (+ acc 1) acc)))))\n(write (go 0 0)) (newline)\n" % (n, opener))
    r = driver(variant).run(prog, cpu=30, wall=90, nofile=40)
    c = classify(r, prog, None)
    if c == "inconclusive":
        return None
    if c:
        return c
    if r.body.strip() != str(n):
        return E.Found("exhaustion", "opened %s of %d ports with RLIMIT_NOFILE=40\n%s" % (r.body.strip()[:200], n, prog))
    return None


def shards(tier, seed, nshards, known):
    return [{"tier": tier, "seed": seed, "shard": i, "nshards": nshards, "known": known} for i in range(nshards)]


def run_shard(spec):
    res = E.ShardResult()
    quick = spec["tier"] != "thorough"
    rng = random.Random(E.subseed(spec["seed"], "C16", spec["shard"]))
    variant = "plain" if spec["shard"] % 4 == 3 else "asan"
    try:
        if spec["shard"] < len(OPENERS) * 2:
            op = OPENERS[spec["shard"] % len(OPENERS)]
            v = "plain" if spec["shard"] >= len(OPENERS) else "asan"
            f = check_exhaustion(v, op)
            res.case({"exhaustion": op, "variant": v}, True, cls="exhaustion", sample=True)
            if f:
                res.violation({"kind": "exhaustion", "opener": op, "variant": v}, f.signature, f.detail)
        last = {}

        def test_eph(data):
            ch = E.HypChooser(data)
            steps, tags = gen_eph_history(ch, 4 + ch.n(26 if quick else 36))
            gc = gc_schedule(ch)
            case = {"kind": "eph", "steps": [list(s) for s in steps], "variant": variant, "gc": gc}
            found, status, stats = check_eph_case(case)
            if status == "inconclusive":
                res.inconclusive += 1
                return
            nt = (stats.get("broken_seen", 0) > 0 and stats.get("intact_after_gc", 0) > 0) or "key-held-through-a-value" in tags
            res.case({"steps": [s[0] for s in steps], "gc": gc}, nt, cls=["ephemeron", "gc:" + (gc or "none").split(":")[0]] + sorted(tags),
                     sample=nt and rng.random() < 0.01)
            for k, v in stats.items():
                res.extra["ephemeron_" + k] = res.extra.get("ephemeron_" + k, 0) + v
            if found:
                last["case"] = case
                raise found

        E.hypothesis_search(st.data(), test_eph, E.subseed(spec["seed"], "C16e", spec["shard"]), 100 if quick else 20000, res,
                            to_case=lambda d: dict(last.get("case") or {}))

        def test_ports(data):
            ch = E.HypChooser(data)
            steps, tags = gen_port_history(ch, 4 + ch.n(26 if quick else 36))
            gc = gc_schedule(ch)
            case = {"kind": "ports", "steps": [list(s) for s in steps], "variant": variant, "gc": gc}
            found, status = check_port_case(case)
            if status == "inconclusive":
                res.inconclusive += 1
                return
            nt = "count-after-drop" in tags
            res.case({"steps": [s[0] for s in steps], "gc": gc}, nt, cls=["ports", "gc:" + (gc or "none").split(":")[0]] + sorted(tags),
                     sample=nt and rng.random() < 0.01)
            if found:
                last["case"] = case
                raise found

        E.hypothesis_search(st.data(), test_ports, E.subseed(spec["seed"], "C16p", spec["shard"]), 60 if quick else 12000, res,
                            to_case=lambda d: dict(last.get("case") or {}))
    finally:
        cleanup()
    return res


def replay(case):
    try:
        if case.get("kind") == "exhaustion":
            f = check_exhaustion(case["variant"], case["opener"])
        elif case.get("kind") == "ports":
            f = check_port_case(case)[0]
        else:
            f = check_eph_case(case)[0]
        if f:
            return {"signature": f.signature, "detail": f.detail, "case": case}
        return None
    finally:
        cleanup()
