"""C03 -- compiled evaluation implements the semantics of the core language.

Programs from the typed, evaluation-order-insensitive grammar of pbt/proggen.py (all core
and derived forms of the statement) and an enumerated family of variable-capture patterns
are run by chibi (read -> compile -> VM) and by the independent CPS reference interpreter
pbt/refscheme.py; printed output must be identical.
"""
import itertools
import random

from hypothesis import strategies as st

from .. import engine as E
from .. import proggen as PG
from .. import refscheme as R
from ..worker import Driver

VARIANTS = ["plain"]
IMPORTS = ["(scheme base)", "(scheme write)", "(scheme case-lambda)"]
RULE = ("case = program text; generated from a typed grammar (lambda fixed/rest, nested closures, internal/top-level define, "
        "set! on captured variables, let family, named let, do, if/cond/case/and/or/when/unless, quasiquote, apply, multiple "
        "values, raise/error/guard) in which at most one operand per operand list is impure, plus the enumerated family of "
        "capture patterns (roles captured+mutated, captured, mutated, shadowed, forward internal define, rest, "
        "defined-after-use x nesting depth 1-4); oracle = refscheme.py; non-trivial iff the program has a closure capturing "
        "a variable mutated after capture, an internal define referenced before its definition, or a non-empty rest list; "
        "distinct by program digest")
ASSUMPTIONS = ["pbt/refscheme.py implements R7RS sections 4, 6.10, 6.11, 7.3 for the generated subset",
               "generated programs are insensitive to argument evaluation order by construction"]

NONTRIVIAL_TAGS = {"captured-mutated", "internal-define-forward", "rest1", "rest2"}

_D = None


def driver():
    global _D
    if _D is None:
        _D = Driver("plain", imports=IMPORTS)
    return _D


def check_program(text):
    """returns (Found or None, status) ; status in ok/discard"""
    try:
        (kind, val), out = R.run(text, budget=300000)
    except (R.Budget, R.SchemeError, RecursionError):
        return None, "discard"
    r = driver().run(text, cpu=20)
    if r.status in ("cpu", "wall"):
        return E.Found("timeout", "chibi did not finish a program the reference interpreter finishes\n" + text), "ok"
    if r.status != "ok":
        return E.Found("crash", "chibi died: %s %s\n%s" % (r.status, r.err[-800:], text)), "ok"
    got = r.body
    if got.rstrip("\n") != out.rstrip("\n"):
        return E.Found("output-differs", "reference: %r\nchibi:     %r\nprogram:\n%s" % (out, got, text)), "ok"
    return None, "ok"


# ---------------------------------------------------------------------------
# enumerated capture-pattern family

ROLES = ["CM", "C", "M", "S", "F", "R", "L", "RM", "RA", "T"]


def capture_program(roles):
    """nested lambdas, one variable per level with the given role; every level contributes observables to `out`"""
    D = len(roles)
    lines = []
    lines.append("(define out '())")
    lines.append("(define (note! x) (set! out (cons x out)))")
    lines.append("(define thunks '())")
    lines.append("(define (keep! f) (set! thunks (cons f thunks)))")

    def level(i):
        if i == D:
            reads = " ".join("(note! (list 'read%d v%d))" % (j, j) for j in range(D) if roles[j] not in ("R", "RM", "RA")) + \
                    " ".join("(note! (list 'rest%d v%d))" % (j, j) for j in range(D) if roles[j] in ("R", "RA"))
            return "(begin %s (for-each (lambda (f) (note! (f))) thunks) 'done)" % reads
        r = roles[i]
        v = "v%d" % i
        inner = level(i + 1)
        arg = str(10 * (i + 1))
        if r == "CM":
            body = "(keep! (lambda () (set! %s (+ %s 1)) %s)) (keep! (lambda () %s)) %s" % (v, v, v, v, inner)
            return "((lambda (%s) %s) %s)" % (v, body, arg)
        if r == "C":
            body = "(keep! (lambda () (* 2 %s))) %s" % (v, inner)
            return "((lambda (%s) %s) %s)" % (v, body, arg)
        if r == "M":
            body = "(set! %s (+ %s 5)) (note! (list 'mut%d %s)) %s" % (v, v, i, v, inner)
            return "((lambda (%s) %s) %s)" % (v, body, arg)
        if r == "S":
            # an inner binding of the same name shadows, then the outer value is visible again
            body = "(note! (let ((%s (+ %s 100))) (keep! (lambda () %s)) %s)) (note! %s) %s" % (v, v, v, v, v, inner)
            return "((lambda (%s) %s) %s)" % (v, body, arg)
        if r == "F":
            body = "(define (get%d) %s) (define %s %s) (keep! get%d) %s" % (i, v, v, arg, i, inner)
            return "((lambda () %s))" % body
        if r == "R":
            return "((lambda (a%d . %s) (keep! (lambda () (length %s))) %s) %s %s)" % (i, v, v, inner, arg, " ".join(str(k) for k in range(i + 1)))
        if r == "T":
            # a closure stored in the value of an earlier internal define refers to a procedure defined later in the body
            body = ("(define tbl%d (list (lambda () (helper%d 1)) 'x)) (define (helper%d n) (+ n %s)) (keep! (car tbl%d)) (note! ((car tbl%d))) %s"
                    % (i, i, i, v, i, i, inner))
            return "((lambda (%s) %s) %s)" % (v, body, arg)
        if r == "RM":
            # rest parameter that is only assigned, never read; the call sits among sibling operands of its caller
            return ("(let ((res (list ((lambda (a%d . %s) (set! %s 'assigned%d) %s) %s %s) 'sib-a%d 'sib-b%d))) (note! (cdr res)) (car res))"
                    % (i, v, v, i, inner, arg, " ".join(str(k) for k in range(i % 3)), i, i))
        if r == "RA":
            # rest parameter read and assigned
            return ("(let ((res (vector 'sib%d ((lambda (a%d . %s) (note! (list 'before%d %s)) (set! %s (cons a%d %s)) %s) %s %s) 'sib-c%d))) (note! (list (vector-ref res 0) (vector-ref res 2))) (vector-ref res 1))"
                    % (i, i, v, i, v, v, i, v, inner, arg, " ".join(str(k) for k in range(i % 3)), i))
        if r == "L":
            body = "(define f%d (lambda () (+ %s 1))) (define %s %s) (note! (f%d)) %s" % (i, v, v, arg, i, inner)
            return "((lambda () %s))" % body
        raise ValueError(r)

    lines.append("(note! %s)" % level(0))
    lines.append("(write (reverse out)) (newline)")
    return "\n".join(lines) + "\n"


FIRST_CLASS_OPS = {
    # op: (allowed argument counts, argument maker)
    "+": ([0, 1, 2, 3, 4], "int"), "*": ([0, 1, 2, 3, 4], "int"), "-": ([1, 2, 3, 4], "int"), "/": ([1, 2, 3], "nz"),
    "=": ([2, 3, 4], "int"), "<": ([2, 3, 4], "int"), ">": ([2, 3, 4], "int"), "<=": ([2, 3, 4], "int"), ">=": ([2, 3, 4], "int"),
    "max": ([1, 2, 3], "int"), "min": ([1, 2, 3], "int"), "append": ([0, 1, 2, 3], "list"), "list": ([0, 1, 2, 3], "int"),
    "vector": ([0, 1, 2, 3], "int"), "string-append": ([0, 1, 2, 3], "str"), "gcd": ([0, 1, 2, 3], "nz"), "lcm": ([1, 2, 3], "nz"),
    "cons": ([2], "int"), "eq?": ([2], "int"), "car": ([1], "list1"), "not": ([1], "int"), "vector-ref": ([2], "vref"),
}


def first_class_program(op, counts, via):
    """the same primitive used as a first-class value with different argument counts, in the given order (a cached
    procedure object for one arity must not be reused for another), and finally in operator position"""
    def args(n, kind, salt):
        if kind == "int":
            return [str((salt * 7 + i * 3) % 11 - 3) for i in range(n)]
        if kind == "nz":
            return [str((salt * 5 + i * 2) % 7 + 1) for i in range(n)]
        if kind == "list":
            return ["(list %d %d)" % (salt + i, i) for i in range(n)]
        if kind == "list1":
            return ["(list %d)" % salt]
        if kind == "vref":
            return ["(vector 5 6 7)", str(salt % 3)]
        return ['"s%d%d"' % (salt, i) for i in range(n)]
    allowed, kind = FIRST_CLASS_OPS[op]
    parts = []
    for j, n in enumerate(counts):
        a = args(n, kind, j + 1)
        if via[j % len(via)] == "apply":
            parts.append("(apply %s (list %s))" % (op, " ".join(a)))
        elif via[j % len(via)] == "var":
            parts.append("(let ((f %s)) (f %s))" % (op, " ".join(a)))
        elif via[j % len(via)] == "map" and n >= 1:
            parts.append("(map %s %s)" % (op, " ".join("(list %s)" % x for x in a)))
        else:
            parts.append("((car (list %s)) %s)" % (op, " ".join(a)))
    parts.append("(%s %s)" % (op, " ".join(args(allowed[0], kind, 9))))
    return "(write (list %s))\n(newline)\n" % " ".join(parts)


def first_class_family():
    for op, (allowed, kind) in sorted(FIRST_CLASS_OPS.items()):
        for counts in itertools.product(allowed, repeat=2):
            for via in (("apply",), ("var",), ("map", "apply"), ("carlist", "var")):
                yield (op, list(counts), list(via))
        for counts in itertools.product(allowed, repeat=3):
            yield (op, list(counts), ["apply", "var", "map"])


def capture_family():
    for d in range(1, 5):
        for roles in itertools.product(ROLES, repeat=d):
            yield roles


# ---------------------------------------------------------------------------

def shards(tier, seed, nshards, known):
    return [{"tier": tier, "seed": seed, "shard": i, "nshards": nshards, "known": known} for i in range(nshards)]


def run_shard(spec):
    res = E.ShardResult()
    quick = spec["tier"] != "thorough"
    rng = random.Random(E.subseed(spec["seed"], "C03", spec["shard"]))
    # (1) enumerated family: full in thorough, 12% sample in quick
    fam = [r for i, r in enumerate(capture_family()) if i % spec["nshards"] == spec["shard"]]
    if quick:
        fam = [r for r in fam if rng.random() < 0.12 or len(r) <= 2]
    for roles in fam:
        text = capture_program(roles)
        found, status = check_program(text)
        if status == "discard":
            res.excluded["reference_discarded"] += 1
            continue
        res.case({"family": list(roles)}, True, cls=["family:depth%d" % len(roles)], sample=(rng.random() < 0.01))
        if found:
            res.violation({"family": list(roles)}, "family/" + found.signature, found.detail)
    # (1b) first-class uses of one primitive with varying argument counts (each program runs in a pristine context)
    fc = [c for i, c in enumerate(first_class_family()) if i % spec["nshards"] == spec["shard"]]
    if quick:
        fc = [c for c in fc if rng.random() < 0.25]
    for op, counts, via in fc:
        text = first_class_program(op, counts, via)
        found, status = check_program(text)
        if status == "discard":
            res.excluded["reference_discarded"] += 1
            continue
        res.case({"first_class": [op, counts, via]}, len(set(counts)) > 1, cls=["first-class-primitive"], sample=(rng.random() < 0.01))
        if found:
            res.violation({"program": text}, "first-class/" + found.signature, found.detail)
    if not quick:
        res.extra["exhaustive_capture_family"] = True

    # (2) generated programs (Hypothesis-driven chooser so that failures shrink)
    def test(data):
        ch_ = E.HypChooser(data)
        g = PG.Gen(ch_, max_depth=4, fold_bias=ch_.p(0.3))     # some programs with constant tests / constant-bound lets
        text = g.program()
        found, status = check_program(text)
        if status == "discard":
            res.excluded["reference_discarded"] += 1
            return
        nt = bool(g.stats & NONTRIVIAL_TAGS)
        res.case(text, nt, cls=sorted(g.stats)[:40], sample=nt and rng.random() < 0.02)
        if found:
            found.case_text = text
            raise found

    last_text = {}

    def to_case(data):
        return {"program": getattr(data, "_verif_text", None)}

    n = 700 if quick else 40000

    def test_wrapped(data):
        try:
            test(data)
        except E.Found as f:
            last_text["text"] = f.case_text
            raise

    before = len(res.violations)
    E.hypothesis_search(st.data(), test_wrapped, E.subseed(spec["seed"], "C03h", spec["shard"]), n, res,
                        to_case=lambda d: {"program": last_text.get("text")})
    if _D is not None:
        _D.close()
    return res


def replay(case):
    if "family" in case:
        text = capture_program(case["family"])
    else:
        text = case["program"]
    found, status = check_program(text)
    if found:
        return {"signature": ("family/" if "family" in case else "") + found.signature, "detail": found.detail, "case": case}
    return None
