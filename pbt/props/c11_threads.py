"""C11 -- green threads: mutual exclusion, no lost wake-ups, schedule independence.

Programs whose shared accesses are all protected by mutexes (so their printed result is the
same under every schedule, and is computed by a sequential model in Python) are run under
generated schedules: the vm.c hook takes the length of every time slice from a vector and /
or a seeded PRNG (1 instruction up to the default quantum).  Three families:
  dsl       generated thread bodies over guarded cells, bags, nested locks, timed locks,
            sticky flags with condition variables (signal / broadcast, timed / untimed),
            joins (timed / untimed, of raising threads too), yields, sleeps, timed waits
            that must expire, parameterize and dynamic-wind per thread;
  ring      n threads pass a turn counter round k times through one condition variable;
  buffer    bounded buffer with producers and consumers (validity predicate: every item
            consumed exactly once, per-producer FIFO order in every consumer).
and the systematic family: tiny 2-3 thread lock programs under every first-slice length and
a strided grid of second and third slice lengths (bounded pre-emptions, then the default
quantum).
Oracles: printed result equals the model / satisfies the predicate; the in-program
assertions (two threads in a critical section, owner of a locked mutex, early wake-up,
expired generous timeout) stay silent; a run that stops consuming CPU and never finishes is
a lost wake-up.
"""
import os
import random
import time

from hypothesis import strategies as st

from .. import engine as E
from ..worker import Driver

VARIANTS = ["plain", "asan"]
IMPORTS = ["(scheme base)", "(srfi 18)", "(scheme write)", "(scheme time)", "(srfi 95)", "(only (chibi ast) exception? exception-irritants)"]
PRELUDE = os.path.join(os.path.dirname(os.path.abspath(__file__)), "..", "..", "harness", "scm", "prelude_c11.scm")
RULE = ("case = (program, slice schedule): program from the dsl / ring / buffer / tiny families (2-6 threads), schedule = explicit "
        "slice vector and/or PRNG slices in [1,max], max from 1 to 500; non-trivial iff the run entered the scheduler >= 20 times "
        "and >= 2 threads contend for one mutex or condition variable; distinct by (program digest, schedule)")
ASSUMPTIONS = ["timeouts that must not expire are 1000 s; timeouts that must expire are 5-20 ms and only a lower bound on the elapsed time is asserted",
               "a run is a lost wake-up only if it hits the 12 s wall limit (or, late wake-up, needs > 6 s) having used < 25% of that as CPU time, and does so again in re-runs (programs need < 0.1 s)",
               "new threads start with default parameter values (chibi resets the parameterization of a new thread): only per-thread consistency is asserted"]

_D = {}


def driver(variant):
    if variant not in _D:
        _D[variant] = Driver(variant, imports=IMPORTS, prelude=PRELUDE)
    return _D[variant]


# ---------------------------------------------------------------------------
# dsl programs

class Dsl(object):
    def __init__(self, ch, max_threads=5, max_ops=7):
        self.ch = ch
        self.tags = set()
        self.n = 2 + ch.n(max_threads - 1)
        self.ncells = 1 + ch.n(3)
        self.nbags = 1 + ch.n(2)
        self.nflags = ch.n(3)
        # flag owner: a thread index; waiters have a larger index
        self.flag_owner = [ch.n(self.n - 1) for _ in range(self.nflags)]
        self.flag_waiters = [0] * self.nflags
        self.threads = []
        sleeps = 0
        for i in range(self.n):
            ops = []
            for _ in range(1 + ch.n(max_ops)):
                kind = ch.pick(["add", "add", "add", "bag", "add2", "yield", "busy", "join", "wait", "param", "wind", "sleep", "cvtimeout", "tadd"])
                if kind in ("add", "tadd"):
                    ops.append((kind, ch.n(self.ncells), 1 + ch.n(9), ch.pick(["none", "none", "yield", "busy", "yield2"])))
                elif kind == "bag":
                    ops.append(("bag", ch.n(self.nbags), i * 100 + len(ops)))
                elif kind == "add2" and self.ncells >= 2:
                    a = ch.n(self.ncells - 1)
                    b = a + 1 + ch.n(self.ncells - a - 1)
                    ops.append(("add2", a, b, 1 + ch.n(9)))
                elif kind == "yield":
                    ops.append(("yield",))
                elif kind == "busy":
                    ops.append(("busy", ch.pick([1, 3, 10, 40, 200])))
                elif kind == "join" and i > 0:
                    ops.append(("join", ch.n(i), ch.p(0.3)))
                elif kind == "wait":
                    fs = [f for f in range(self.nflags) if self.flag_owner[f] < i]
                    if fs:
                        f = ch.pick(fs)
                        self.flag_waiters[f] += 1
                        ops.append(("wait", f, ch.p(0.3)))
                elif kind == "param":
                    ops.append(("param", ch.pick(["none", "yield", "busy"])))
                elif kind == "wind":
                    ops.append(("wind", ch.p(0.4)))
                elif kind == "sleep" and sleeps < 3:
                    sleeps += 1
                    ops.append(("sleep", ch.pick([0, 1, 5, 12, 10.1, 10.2])))
                elif kind == "cvtimeout" and sleeps < 3:
                    sleeps += 1
                    ops.append(("cvtimeout", ch.pick([5, 12])))
            raises = ch.p(0.1)
            self.threads.append({"ops": ops, "raises": raises})
        # place the set of each flag somewhere in its owner's ops
        for f in range(self.nflags):
            ops = self.threads[self.flag_owner[f]]["ops"]
            ops.insert(ch.n(len(ops) + 1), ("set", f))
        for t in self.threads:
            for op in t["ops"]:
                self.tags.add(op[0])

    def contended(self):
        users = {}
        for i, t in enumerate(self.threads):
            for op in t["ops"]:
                if op[0] in ("add", "tadd"):
                    users.setdefault(("c", op[1]), set()).add(i)
                elif op[0] == "add2":
                    users.setdefault(("c", op[1]), set()).add(i)
                    users.setdefault(("c", op[2]), set()).add(i)
                elif op[0] == "bag":
                    users.setdefault(("b", op[1]), set()).add(i)
                elif op[0] in ("wait", "set"):
                    users.setdefault("flags", set()).add(i)
        return any(len(v) >= 2 for v in users.values())

    def model(self):
        cells = [0] * self.ncells
        bags = [[] for _ in range(self.nbags)]
        results = []
        for i, t in enumerate(self.threads):
            acc = i
            for op in t["ops"]:
                if op[0] in ("add", "tadd"):
                    cells[op[1]] += op[2]
                elif op[0] == "add2":
                    cells[op[1]] += op[3]
                    cells[op[2]] += op[3]
                elif op[0] == "bag":
                    bags[op[1]].append(op[2])
                elif op[0] == "join":
                    r = results[op[1]]
                    acc += r[1] if r[0] != "raised" else 1000
                elif op[0] == "wind":
                    acc += 101
            results.append(("raised", "boom%d" % i) if t["raises"] else (i, acc))
        rs = " ".join("(raised boom%d)" % i if r[0] == "raised" else "(%d %d)" % r for i, r in enumerate(results))
        return "((%s) (%s) (%s) 0 ())" % (rs, " ".join(str(c) for c in cells),
                                           " ".join("(" + " ".join(str(x) for x in sorted(b)) + ")" for b in bags))

    def render(self):
        L = ["(let ()",
             "  (define cells (make-vector %d 0))" % self.ncells,
             "  (define bags (make-vector %d '()))" % self.nbags,
             "  (define cgm (vector %s))" % " ".join("(make-gm)" for _ in range(self.ncells)),
             "  (define bgm (vector %s))" % " ".join("(make-gm)" for _ in range(self.nbags)),
             "  (define flags (make-vector %d #f))" % max(1, self.nflags),
             "  (define cvs (vector %s))" % " ".join("(make-condition-variable)" for _ in range(max(1, self.nflags))),
             "  (define fm (make-mutex))",
             "  (define P (make-parameter 'default))",
             "  (define threads (make-vector %d #f))" % self.n]
        for i, t in enumerate(self.threads):
            B = ["  (define (body%d)" % i, "    (let ((acc %d) (p0 (P)) (w 0))" % i]
            for j, op in enumerate(t["ops"]):
                k = op[0]
                if k in ("add", "tadd"):
                    inner = {"none": "", "yield": "(thread-yield!)", "busy": "(busy 25)", "yield2": "(thread-yield!) (busy 7) (thread-yield!)"}[op[3]]
                    B.append("      (gm-enter! (vector-ref cgm %d) %s) (let ((v (vector-ref cells %d))) %s (vector-set! cells %d (+ v %d))) (gm-leave! (vector-ref cgm %d))"
                             % (op[1], "#t" if k == "tadd" else "#f", op[1], inner, op[1], op[2], op[1]))
                elif k == "add2":
                    B.append("      (gm-enter! (vector-ref cgm %d) #f) (gm-enter! (vector-ref cgm %d) #f)" % (op[1], op[2]))
                    B.append("      (vector-set! cells %d (+ (vector-ref cells %d) %d)) (thread-yield!) (vector-set! cells %d (+ (vector-ref cells %d) %d))"
                             % (op[1], op[1], op[3], op[2], op[2], op[3]))
                    B.append("      (gm-leave! (vector-ref cgm %d)) (gm-leave! (vector-ref cgm %d))" % (op[2], op[1]))
                elif k == "bag":
                    B.append("      (gm-enter! (vector-ref bgm %d) #f) (let ((v (vector-ref bags %d))) (busy 3) (vector-set! bags %d (cons %d v))) (gm-leave! (vector-ref bgm %d))"
                             % (op[1], op[1], op[1], op[2], op[1]))
                elif k == "yield":
                    B.append("      (thread-yield!)")
                elif k == "busy":
                    B.append("      (busy %d)" % op[1])
                elif k == "join":
                    B.append("      (let ((r (join-result (vector-ref threads %d) %s))) (set! acc (+ acc (if (eq? (car r) 'raised) 1000 (cadr r)))))"
                             % (op[1], "#t" if op[2] else "#f"))
                elif k == "set":
                    wake = "condition-variable-signal!" if self.flag_waiters[op[1]] <= 1 else "condition-variable-broadcast!"
                    B.append("      (mutex-lock! fm) (vector-set! flags %d #t) (%s (vector-ref cvs %d)) (mutex-unlock! fm)" % (op[1], wake, op[1]))
                elif k == "wait":
                    to = " 1000" if op[2] else ""
                    B.append("      (mutex-lock! fm) (let lp () (if (vector-ref flags %d) (mutex-unlock! fm) (begin (if (not (mutex-unlock! fm (vector-ref cvs %d)%s)) (viol! 'generous-wait-timed-out)) (mutex-lock! fm) (lp))))"
                             % (op[1], op[1], to))
                elif k == "param":
                    inner = {"none": "", "yield": "(thread-yield!)", "busy": "(busy 30)"}[op[1]]
                    B.append("      (parameterize ((P 'p%d-%d)) %s (if (not (eq? (P) 'p%d-%d)) (viol! 'parameter-changed-under-thread))) (if (not (eq? (P) p0)) (viol! 'parameter-not-restored))"
                             % (i, j, inner, i, j))
                elif k == "wind":
                    if op[1]:
                        body = "(call/cc (lambda (k) (thread-yield!) (k 'out) (viol! 'escape-returned)))"
                    else:
                        body = "(begin (thread-yield!) (busy 5))"
                    B.append("      (set! w 0) (dynamic-wind (lambda () (set! w (+ w 1))) (lambda () %s) (lambda () (set! w (+ w 100)))) (set! acc (+ acc w))" % body)
                elif k == "sleep":
                    B.append("      (sleep-ms! %s)" % op[1])
                elif k == "cvtimeout":
                    B.append("      (cv-timeout! %d)" % op[1])
            if t["raises"]:
                B.append("      (raise 'boom%d)" % i)
            B.append("      (list %d acc)))" % i)
            L.extend(B)
        L.append("  (verif-slices-go!) (thread-yield!)")
        L.append("  (do ((i 0 (+ i 1))) ((= i %d)) (vector-set! threads i (make-thread (vector-ref (vector %s) i))))"
                 % (self.n, " ".join("body%d" % i for i in range(self.n))))
        L.append("  (do ((i 0 (+ i 1))) ((= i %d)) (thread-start! (vector-ref threads i)))" % self.n)
        L.append("  (let ((results (map (lambda (t) (join-result t #f)) (vector->list threads))))")
        L.append("    (write (list results (vector->list cells) (map (lambda (b) (sort b <)) (vector->list bags)) nviol (reverse viol-log)))))")
        return "\n".join(L) + "\n"


# ---------------------------------------------------------------------------
# fixed-shape families

def ring_program(n, rounds, wake):
    """n threads; thread i waits until turn mod n = i, logs, increments turn; `rounds` rounds"""
    return """(let ()
  (define m (make-mutex)) (define cv (make-condition-variable)) (define turn 0) (define log '())
  (define (body i)
    (lambda ()
      (let lp ((r 0))
        (if (< r %(rounds)d)
            (begin
              (mutex-lock! m)
              (let wait ()
                (if (not (= (modulo turn %(n)d) i))
                    (begin (mutex-unlock! m cv) (mutex-lock! m) (wait))))
              (set! log (cons turn log))
              (set! turn (+ turn 1))
              (%(wake)s cv)
              (mutex-unlock! m)
              (lp (+ r 1)))
            i))))
  (verif-slices-go!) (thread-yield!)
  (let ((ts (map (lambda (i) (make-thread (body i))) (iota %(n)d))))
    (for-each thread-start! (reverse ts))
    (let ((rs (map thread-join! ts)))
      (write (list rs turn (reverse log) nviol (reverse viol-log))))))
""" % {"n": n, "rounds": rounds, "wake": wake}


def ring_expected(n, rounds):
    total = n * rounds
    return "((%s) %d (%s) 0 ())" % (" ".join(str(i) for i in range(n)), total, " ".join(str(i) for i in range(total)))


def buffer_program(np_, nc, cap, per):
    """np producers of `per` items each, nc consumers (np*per divisible by nc), circular buffer of `cap`"""
    total = np_ * per
    return """(let ()
  (define m (make-mutex)) (define not-full (make-condition-variable)) (define not-empty (make-condition-variable))
  (define buf (make-vector %(cap)d #f)) (define head 0) (define count 0)
  (define (put! x)
    (mutex-lock! m)
    (let wait () (if (= count %(cap)d) (begin (mutex-unlock! m not-full) (mutex-lock! m) (wait))))
    (vector-set! buf (modulo (+ head count) %(cap)d) x)
    (set! count (+ count 1))
    (if (> count %(cap)d) (viol! 'buffer-overfull))
    (condition-variable-broadcast! not-empty)
    (mutex-unlock! m))
  (define (get!)
    (mutex-lock! m)
    (let wait () (if (= count 0) (begin (mutex-unlock! m not-empty) (mutex-lock! m) (wait))))
    (let ((x (vector-ref buf head)))
      (vector-set! buf head #f)
      (set! head (modulo (+ head 1) %(cap)d))
      (set! count (- count 1))
      (if (< count 0) (viol! 'buffer-underflow))
      (condition-variable-broadcast! not-full)
      (mutex-unlock! m)
      x))
  (define (producer p) (lambda () (do ((i 0 (+ i 1))) ((= i %(per)d) 'p) (put! (+ (* p 1000) i)))))
  (define (consumer c) (lambda () (let lp ((i 0) (acc '())) (if (< i %(each)d) (lp (+ i 1) (cons (get!) acc)) (reverse acc)))))
  (verif-slices-go!) (thread-yield!)
  (let* ((cs (map (lambda (c) (make-thread (consumer c))) (iota %(nc)d)))
         (ps (map (lambda (p) (make-thread (producer p))) (iota %(np)d))))
    (for-each thread-start! cs)
    (for-each thread-start! ps)
    (for-each thread-join! ps)
    (let ((got (map thread-join! cs)))
      (write (list got count nviol (reverse viol-log))))))
""" % {"cap": cap, "per": per, "each": total // nc, "np": np_, "nc": nc}


def tiny_program(nthreads, iters, inner):
    innertext = {"none": "", "yield": "(thread-yield!)", "busy": "(busy 4)"}[inner]
    return """(let ()
  (define g (make-gm)) (define c 0)
  (define (body i)
    (lambda ()
      (do ((k 0 (+ k 1))) ((= k %(iters)d) i)
        (gm-enter! g #f)
        (let ((v c)) %(inner)s (set! c (+ v 1)))
        (gm-leave! g))))
  (verif-slices-go!) (thread-yield!)
  (let ((ts (map (lambda (i) (thread-start! (make-thread (body i)))) (iota %(n)d))))
    (let ((rs (map thread-join! ts)))
      (write (list rs c nviol (reverse viol-log))))))
""" % {"n": nthreads, "iters": iters, "inner": innertext}


def tiny_expected(nthreads, iters):
    return "((%s) %d 0 ())" % (" ".join(str(i) for i in range(nthreads)), nthreads * iters)


def parse_sexp(text):
    """minimal reader for the printed results: nested lists of integers / symbols"""
    toks = text.replace("(", " ( ").replace(")", " ) ").split()
    pos = [0]

    def rd():
        t = toks[pos[0]]
        pos[0] += 1
        if t == "(":
            out = []
            while toks[pos[0]] != ")":
                out.append(rd())
            pos[0] += 1
            return out
        try:
            return int(t)
        except ValueError:
            return t
    return rd()


def buffer_judge(np_, nc, per):
    def judge(body):
        try:
            v = parse_sexp(body)
            lists, count, nviol, vlog = v
        except Exception:
            return "unparsable output %r" % body[:200]
        if count != 0 or nviol != 0:
            return "count=%r nviol=%r log=%r" % (count, nviol, vlog)
        allitems = sorted(x for l in lists for x in l)
        want = sorted(p * 1000 + i for p in range(np_) for i in range(per))
        if allitems != want:
            return "items consumed %r, produced %r" % (allitems, want)
        for l in lists:
            for p in range(np_):
                sub = [x for x in l if x // 1000 == p]
                if sub != sorted(sub):
                    return "consumer saw producer %d's items out of order: %r" % (p, l)
        return None
    return judge


def exact_judge(expected):
    def judge(body):
        if body.strip() != expected:
            return "printed %s\nexpected %s" % (body.strip()[:600], expected[:600])
        return None
    return judge


# ---------------------------------------------------------------------------

def make_case(ch, family=None):
    """returns (case dict) -- self-contained: program text, judge description, schedule"""
    fam = family or ch.pick(["dsl", "dsl", "dsl", "ring", "buffer", "tiny"])
    if fam == "dsl":
        d = Dsl(ch)
        case = {"family": "dsl", "program": d.render(), "judge": ["exact", d.model()], "tags": sorted(d.tags), "contended": d.contended(), "threads": d.n}
    elif fam == "ring":
        n = 2 + ch.n(4)
        rounds = 1 + ch.n(4)
        case = {"family": "ring", "program": ring_program(n, rounds, "condition-variable-broadcast!"), "judge": ["exact", ring_expected(n, rounds)],
                "tags": ["ring"], "contended": True, "threads": n}
    elif fam == "buffer":
        np_ = 1 + ch.n(3)
        nc = 1 + ch.n(3)
        per = nc * (1 + ch.n(3))
        cap = 1 + ch.n(3)
        case = {"family": "buffer", "program": buffer_program(np_, nc, cap, per), "judge": ["buffer", np_, nc, per], "tags": ["buffer"], "contended": True, "threads": np_ + nc}
    else:
        n = 2 + ch.n(2)
        iters = 1 + ch.n(3)
        case = {"family": "tiny", "program": tiny_program(n, iters, ch.pick(["none", "yield", "busy"])), "judge": ["exact", tiny_expected(n, iters)],
                "tags": ["tiny"], "contended": True, "threads": n}
    case["slices"] = make_schedule(ch)
    return case


def make_schedule(ch):
    kind = ch.pick(["rand", "rand", "rand", "vec", "vec+rand", "none"])
    if kind == "none":
        return None
    mx = ch.pick([1, 2, 3, 4, 6, 10, 25, 80, 300, 500])
    seed = ch.n(100000)
    if kind == "rand":
        return "rand:%d:%d" % (seed, mx)
    vec = [1 + ch.n(ch.pick([3, 30, 400])) for _ in range(1 + ch.n(8))]
    if kind == "vec":
        return ",".join(str(v) for v in vec)
    return ",".join(str(v) for v in vec) + ";rand:%d:%d" % (seed, mx)


def get_judge(case):
    j = case["judge"]
    if j[0] == "exact":
        return exact_judge(j[1])
    return buffer_judge(j[1], j[2], j[3])


WALL = 12
LATE = 6.0


def run_case(case, variant="plain"):
    """returns (Found or None, status, result)"""
    t0 = time.time()
    r = driver(variant).run(case["program"], cpu=10, wall=WALL, slices=case.get("slices"), sgo=1 if case.get("slices") else None)
    sig = case["family"]
    if r.status == "wall":
        if r.utime_ms < WALL * 250:
            return E.Found(sig + "/lost-wakeup", "the program stopped running (cpu %d ms of %d s wall) without finishing: a blocked thread was never resumed\nslices=%s\n%s"
                           % (r.utime_ms, WALL, case.get("slices"), case["program"])), "hang", r
        return None, "inconclusive", r
    if r.status == "cpu":
        # programs need well under 0.1 s of CPU; burning the whole 10 s limit is a scheduler spin in which a
        # runnable or expired thread is never picked (treated like a hang: must reproduce in re-runs)
        return E.Found(sig + "/livelock", "the program used its whole CPU limit (10 s; it needs < 0.1 s) without finishing: the scheduler spins without resuming a thread whose event has happened\nslices=%s\n%s"
                       % (case.get("slices"), case["program"])), "hang", r
    if r.status == "crash":
        return E.Found(sig + "/crash", r.sanitizer_summary() + "\nslices=%s\n%s" % (case.get("slices"), case["program"])), "crash", r
    if r.status != "ok":
        return E.Found(sig + "/exited", "driver child exited: %r\nslices=%s\n%s" % (r, case.get("slices"), case["program"])), "exited", r
    if r.end.get("errs"):
        return E.Found(sig + "/error", "uncaught error: %s %s\nslices=%s\n%s" % (r.out[-400:], r.err[-300:], case.get("slices"), case["program"])), "ok", r
    elapsed = time.time() - t0
    if elapsed > LATE and r.utime_ms < elapsed * 250:
        return E.Found(sig + "/late-wakeup", "the program (sleeps and timeouts of at most a few 10 ms) took %.1f s of wall time using %d ms of CPU: a blocked thread was resumed seconds after its event\nslices=%s\n%s"
                       % (elapsed, r.utime_ms, case.get("slices"), case["program"])), "hang", r
    why = get_judge(case)(r.body)
    if why:
        kind = "mutual-exclusion" if "two-threads" in r.body else "result"
        return E.Found("%s/%s" % (sig, kind), "%s\nslices=%s\n%s" % (why, case.get("slices"), case["program"])), "ok", r
    return None, "ok", r


def shards(tier, seed, nshards, known):
    return [{"tier": tier, "seed": seed, "shard": i, "nshards": nshards, "known": known} for i in range(nshards)]


def note(res, case, r, rng, cls_extra=()):
    sched = (r.end or {}).get("sched", 0) if r is not None else 0
    nt = bool(case.get("contended")) and sched >= 20
    res.case({"program": E.digest(case["program"]), "slices": case.get("slices")}, nt,
             cls=[case["family"]] + ["op:" + t for t in case.get("tags", []) if case["family"] == "dsl"] + list(cls_extra),
             sample=False)
    if nt and rng.random() < 0.004:
        res.samples.append({"family": case["family"], "slices": case.get("slices"), "scheduler_entries": sched, "program": case["program"][:1500]})
    res.extra["max_scheduler_entries"] = max(res.extra.get("max_scheduler_entries", 0), sched)
    res.extra["scheduler_entries_total"] = res.extra.get("scheduler_entries_total", 0) + sched


def systematic(spec, res, rng):
    """tiny programs x (n1, n2[, n3]) grid of leading slice lengths, then the default quantum"""
    quick = spec["tier"] != "thorough"
    progs = [(2, 1, "none"), (2, 2, "yield"), (3, 1, "none"), (3, 2, "busy"), (2, 2, "busy"), (3, 1, "yield")]
    if quick:
        progs = progs[:3]
    jobs = []
    for (n, iters, inner) in progs:
        # number of VM instructions from the start of the schedule to the last join (slices of 1 instruction)
        probe = tiny_program(n, iters, inner).replace("(write (list rs c", "(write (vector-ref (verif-stats) 13)) (write (list rs c")
        r = driver("plain").run(probe, cpu=10, wall=WALL, slices="rand:1:1", sgo=1)
        try:
            horizon = int(r.body.split("(")[0]) + 40
        except ValueError:
            horizon = 1500
        res.extra["max_instructions_tiny_program"] = max(res.extra.get("max_instructions_tiny_program", 0), horizon - 40)
        s2 = 211 if quick else 13
        for n1 in range(1, horizon):
            jobs.append((n, iters, inner, "%d" % n1))
            for n2 in range(1 + (n1 % s2), horizon, s2):
                jobs.append((n, iters, inner, "%d,%d" % (n1, n2)))
                if n == 3 and (n1 + n2) % (7 if quick else 3) == 0:
                    jobs.append((n, iters, inner, "%d,%d,%d" % (n1, n2, 1 + (n1 * 31 + n2 * 17) % 300)))
    for idx, (n, iters, inner, sl) in enumerate(jobs):
        if idx % spec["nshards"] != spec["shard"]:
            continue
        if len(res.violations) >= 2:
            res.extra["stopped_after_two_violations"] = 1     # the check is decided; every further hang costs 12 s
            break
        case = {"family": "tiny", "program": tiny_program(n, iters, inner), "judge": ["exact", tiny_expected(n, iters)], "tags": ["tiny"],
                "contended": True, "threads": n, "slices": sl}
        found, status, r = run_case(case)
        if status == "inconclusive":
            res.inconclusive += 1
            continue
        note(res, case, r, rng, ["systematic"])
        if found:
            if status == "hang":
                case = dict(case, repeat=12)
            res.violation(case, "systematic/" + found.signature, found.detail)
    res.extra["systematic_grid"] = "first slice: every length from 1 to the instruction count of the program; second slice: stride %d; third (3 threads): sampled" % (211 if quick else 13)


def run_shard(spec):
    res = E.ShardResult()
    quick = spec["tier"] != "thorough"
    rng = random.Random(E.subseed(spec["seed"], "C11", spec["shard"]))
    systematic(spec, res, rng)
    last = {}
    variant = "asan" if spec["shard"] % 4 == 3 else "plain"

    def test(data):
        if len(res.violations) >= 3:
            raise E.StopSearch()
        ch = E.HypChooser(data)
        case = make_case(ch)
        found, status, r = run_case(case, variant)
        if status == "inconclusive":
            res.inconclusive += 1
            return
        note(res, case, r, rng, [variant])
        if found and status == "hang":
            # timing-dependent by nature: not handed to the shrinker; recorded if it happens again
            again = 0
            for _ in range(10):
                if run_case(case, variant)[1] == "hang":
                    again += 1
                    break
            if again:
                case = dict(case, repeat=12, variant=variant)
                res.violation(case, found.signature, found.detail)
            else:
                res.extra["hang_seen_once_not_reproduced"] = res.extra.get("hang_seen_once_not_reproduced", 0) + 1
                res.inconclusive += 1
            return
        if found:
            last["case"] = dict(case, variant=variant)
            raise found

    E.hypothesis_search(st.data(), test, E.subseed(spec["seed"], "C11h", spec["shard"]), 500 if quick else 40000, res,
                        to_case=lambda d: dict(last.get("case") or {}))
    for d in _D.values():
        d.close()
    _D.clear()
    return res


def replay(case):
    # timing-dependent regressions (timeouts racing with the scheduler) carry a repeat count
    for _ in range(case.get("repeat", 1)):
        found, status, r = run_case(case, case.get("variant", "plain"))
        if found:
            return {"signature": found.signature, "detail": found.detail, "case": case}
    return None
