"""C20 -- regular expression matching agrees with the SRFI 115 semantics.

SREs are drawn from a recursive grammar (depth <= 5) over char and string literals, char
sets, seq, or, * + ? = >= **, non-greedy variants, submatches, bos/eos/bol/eol,
w/nocase; all small SREs are enumerated.  Each SRE is matched against ALL subject
strings up to a length bound over a 3-letter alphabet (chosen per SRE so that case
folding and line anchors are exercised).  Oracle: an independent span-set matcher in
Python (ends(node, s, i) = set of j such that node matches s[i:j] in the context of s).
"""
import itertools
import random
import re

from hypothesis import strategies as st

from .. import engine as E
from ..worker import Driver

VARIANTS = ["plain"]
IMPORTS = ["(scheme base)", "(scheme write)", "(chibi regexp)"]
RULE = ("case = (SRE, subject): SREs of depth <= 5 (plus all SREs with <= 3 nodes over the core alphabet) x all strings of "
        "length <= 5 (quick) / <= 7 (thorough) over a 3-letter alphabet chosen per SRE (abc, aAb for case folding, ab+newline "
        "for line anchors and newline literals; every (x anchor y) with x, y over newline / any / nonl / letter / set with newline / (* any) "
        "and anchor over bol eol bos eos is included); checked: regexp-matches? <=> whole-string membership, regexp-search <=> some substring matches, the "
        "reported match and submatch spans delimit text matched by the corresponding subexpression, regexp-fold spans likewise; "
        "non-trivial iff the SRE has a repetition of a subexpression containing or/another repetition, or a submatch inside a "
        "repetition, and the subject has length >= 2; distinct by (SRE, subject)")
ASSUMPTIONS = ["SREs rejected by (regexp ...) at compile time are outside the supported subset (counted, not violations)",
               "which of several valid matches is reported (leftmost/longest preferences) is not asserted, only validity"]


# ---------------------------------------------------------------------------
# SRE representation: tuples ("lit", "a") ("str", "ab") ("set", "abc", negated) ("any",) ("nonl",) ("seq", [..]) ("or", [..])
# ("rep", lo, hi_or_None, x, greedy) ("sub", x) ("bos",) ("eos",) ("bol",) ("eol",) ("nocase", x) ("case", x)

def render(n):
    k = n[0]
    if k == "lit":
        return "#\\" + ("newline" if n[1] == "\n" else n[1])
    if k == "str":
        return '"%s"' % n[1].replace("\n", "\\n")
    if k == "set":
        inner = '("%s")' % n[1].replace("\n", "\\n")
        return "(~ %s)" % inner if n[2] else inner
    if k == "range":
        return '(/ "%s%s")' % (n[1], n[2])
    if k in ("any", "nonl", "bos", "eos", "bol", "eol"):
        return k
    if k == "seq":
        return "(: %s)" % " ".join(render(x) for x in n[1])
    if k == "or":
        return "(or %s)" % " ".join(render(x) for x in n[1])
    if k == "rep":
        lo, hi, x, greedy = n[1], n[2], n[3], n[4]
        r = render(x)
        if not greedy:
            if lo == 0 and hi is None:
                return "(*? %s)" % r
            return "(**? %d %d %s)" % (lo, hi if hi is not None else lo + 2, r)
        if lo == 0 and hi is None:
            return "(* %s)" % r
        if lo == 1 and hi is None:
            return "(+ %s)" % r
        if lo == 0 and hi == 1:
            return "(? %s)" % r
        if hi is None:
            return "(>= %d %s)" % (lo, r)
        if lo == hi:
            return "(= %d %s)" % (lo, r)
        return "(** %d %d %s)" % (lo, hi, r)
    if k == "sub":
        return "($ %s)" % render(n[1])
    if k == "nocase":
        return "(w/nocase %s)" % render(n[1])
    if k == "case":
        return "(w/case %s)" % render(n[1])
    raise ValueError(n)


def normalise(n):
    """the non-greedy bounded form needs a finite upper bound: make the tree say what render prints"""
    if n[0] == "rep" and not n[4] and not (n[1] == 0 and n[2] is None) and n[2] is None:
        return ("rep", n[1], n[1] + 2, normalise(n[3]), False)
    if n[0] in ("seq", "or"):
        return (n[0], [normalise(x) for x in n[1]])
    if n[0] == "rep":
        return ("rep", n[1], n[2], normalise(n[3]), n[4])
    if n[0] in ("sub", "nocase", "case"):
        return (n[0], normalise(n[1]))
    return n


class Matcher(object):
    def __init__(self, s):
        self.s = s
        self.memo = {}

    def ends(self, n, i, ci=False):
        key = (id(n), i, ci)
        r = self.memo.get(key)
        if r is None:
            r = self.memo[key] = frozenset(self._ends(n, i, ci))
        return r

    def chareq(self, a, b, ci):
        return a == b or (ci and a.lower() == b.lower())

    def _ends(self, n, i, ci):
        s = self.s
        k = n[0]
        if k == "lit":
            return {i + 1} if i < len(s) and self.chareq(s[i], n[1], ci) else set()
        if k == "str":
            t = n[1]
            if i + len(t) <= len(s) and all(self.chareq(s[i + j], t[j], ci) for j in range(len(t))):
                return {i + len(t)}
            return set()
        if k == "set":
            if i >= len(s):
                return set()
            inside = any(self.chareq(s[i], c, ci) for c in n[1])
            return {i + 1} if inside != n[2] else set()
        if k == "range":
            if i >= len(s):
                return set()
            c = s[i]
            ok = n[1] <= c <= n[2] or (ci and (n[1] <= c.lower() <= n[2] or n[1] <= c.upper() <= n[2]))
            return {i + 1} if ok else set()
        if k == "any":
            return {i + 1} if i < len(s) else set()
        if k == "nonl":
            return {i + 1} if i < len(s) and s[i] != "\n" else set()
        if k == "bos":
            return {i} if i == 0 else set()
        if k == "eos":
            return {i} if i == len(s) else set()
        if k == "bol":
            return {i} if i == 0 or s[i - 1] == "\n" else set()
        if k == "eol":
            return {i} if i == len(s) or s[i] == "\n" else set()
        if k == "seq":
            cur = {i}
            for x in n[1]:
                nxt = set()
                for p in cur:
                    nxt |= self.ends(x, p, ci)
                cur = nxt
                if not cur:
                    break
            return cur
        if k == "or":
            r = set()
            for x in n[1]:
                r |= self.ends(x, i, ci)
            return r
        if k == "rep":
            lo, hi, x = n[1], n[2], n[3]
            cur = {i}
            for _ in range(lo):
                nxt = set()
                for p in cur:
                    nxt |= self.ends(x, p, ci)
                cur = nxt
            result = set(cur)
            if hi is None:
                frontier = set(cur)
                while frontier:
                    nxt = set()
                    for p in frontier:
                        nxt |= self.ends(x, p, ci)
                    frontier = nxt - result
                    result |= nxt
            else:
                for _ in range(hi - lo):
                    nxt = set()
                    for p in cur:
                        nxt |= self.ends(x, p, ci)
                    result |= nxt
                    cur = nxt
            return result
        if k == "sub":
            return self.ends(n[1], i, ci)
        if k == "nocase":
            return self.ends(n[1], i, True)
        if k == "case":
            return self.ends(n[1], i, False)
        raise ValueError(n)


def submatches(n, ci=False, acc=None):
    """list of (node, case-insensitive?) for every submatch in left-to-right opening order"""
    if acc is None:
        acc = []
    k = n[0]
    if k == "sub":
        acc.append((n[1], ci))
        submatches(n[1], ci, acc)
    elif k in ("seq", "or"):
        for x in n[1]:
            submatches(x, ci, acc)
    elif k == "rep":
        submatches(n[3], ci, acc)
    elif k == "nocase":
        submatches(n[1], True, acc)
    elif k == "case":
        submatches(n[1], False, acc)
    return acc


def features(n, inrep=False, acc=None):
    if acc is None:
        acc = set()
    k = n[0]
    acc.add(k)
    if k in ("seq", "or"):
        if k == "or" and inrep:
            acc.add("or-in-rep")
        for x in n[1]:
            features(x, inrep, acc)
    elif k == "rep":
        if inrep:
            acc.add("rep-in-rep")
        features(n[3], True, acc)
    elif k in ("sub",):
        if inrep:
            acc.add("sub-in-rep")
        features(n[1], inrep, acc)
    elif k in ("nocase", "case"):
        features(n[1], inrep, acc)
    return acc


def alphabet_for(feats):
    if "nocase" in feats:
        return "aAb"
    if feats & {"bol", "eol", "nonl"}:
        return "ab\n"
    return "abc"


class SreGen(object):
    def __init__(self, ch, letters):
        self.ch = ch
        self.letters = letters

    def atom(self):
        ch = self.ch
        L = self.letters
        k = ch.n(9)
        if k <= 2:
            return ("lit", ch.pick(L))
        if k == 3:
            return ("str", "".join(ch.pick(L) for _ in range(1 + ch.n(2))))
        if k == 4:
            return ("set", "".join(sorted(set(ch.pick(L) for _ in range(1 + ch.n(2))))), ch.p(0.3))
        if k == 5:
            return ("any",)
        if k == 6:
            return ch.pick([("bos",), ("eos",), ("bol",), ("eol",), ("nonl",)])
        if k == 7:
            return ("range", "a", ch.pick(["a", "b", "c"]))
        return ("lit", ch.pick(L))

    def node(self, depth):
        ch = self.ch
        if depth <= 0 or ch.p(0.25):
            return self.atom()
        k = ch.n(10)
        if k <= 1:
            return ("seq", [self.node(depth - 1) for _ in range(2 + ch.n(2))])
        if k <= 3:
            return ("or", [self.node(depth - 1) for _ in range(2 + ch.n(2))])
        if k <= 6:
            lo, hi = ch.pick([(0, None), (1, None), (0, 1), (2, None), (2, 2), (1, 3), (0, 2), (1, 1), (3, None)])
            return ("rep", lo, hi, self.node(depth - 1), not ch.p(0.15))
        if k == 7:
            return ("sub", self.node(depth - 1))
        if k == 8:
            return (ch.pick(["nocase", "nocase", "case"]), self.node(depth - 1))
        return self.atom()


def enum_small():
    atoms = [("lit", "a"), ("lit", "b"), ("any",), ("set", "ab", False), ("set", "a", True), ("str", "ab"), ("bos",), ("eos",)]
    reps = [(0, None), (1, None), (0, 1), (2, 2), (1, 2)]
    level1 = list(atoms)
    level2 = []
    for a in atoms[:6]:
        for lo, hi in reps:
            level2.append(("rep", lo, hi, a, True))
        level2.append(("sub", a))
    for a, b in itertools.product(atoms, repeat=2):
        level2.append(("seq", [a, b]))
        if a < b:
            level2.append(("or", [a, b]))
    level3 = []
    for x in level2[::3]:
        for lo, hi in reps[:3]:
            level3.append(("rep", lo, hi, ("sub", x), True))
        level3.append(("seq", [x, ("lit", "b")]))
        level3.append(("or", [x, ("str", "ba")]))
        level3.append(("seq", [("rep", 0, None, ("any",), True), x]))
    return level1 + level2 + level3


def subjects(alphabet, maxlen):
    out = []
    for n in range(maxlen + 1):
        for t in itertools.product(alphabet, repeat=n):
            out.append("".join(t))
    return out


PRELUDE = r"""
(define (span m k) (if (regexp-match-submatch m k) (list (regexp-match-submatch-start m k) (regexp-match-submatch-end m k)) '-))
(define (run-sre sre n subs)
  (let ((re (guard (e (#t #f)) (regexp sre))))
    (if (not re)
        (begin (write 'unsupported) (newline))
        (for-each
         (lambda (s)
           (let* ((m? (regexp-matches? re s))
                  (m (regexp-matches re s))
                  (sr (regexp-search re s))
                  (fold (guard (e (#t 'fold-error))
                          (regexp-fold re (lambda (i m str acc) (cons (span m 0) acc)) '() s))))
             (write (list (if m? 1 0)
                          (if m (let lp ((k 0) (acc '())) (if (> k n) (reverse acc) (lp (+ k 1) (cons (span m k) acc)))) '-)
                          (if sr (let lp ((k 0) (acc '())) (if (> k n) (reverse acc) (lp (+ k 1) (cons (span sr k) acc)))) '-)
                          (if (pair? fold) (reverse fold) fold)))
             (newline)))
         subs))))
"""

_D = None


def driver():
    global _D
    if _D is None:
        import tempfile, os
        f = tempfile.NamedTemporaryFile("w", suffix=".scm", delete=False, dir="/var/tmp")
        f.write(PRELUDE)
        f.close()
        try:
            _D = Driver("plain", imports=IMPORTS, prelude=f.name)
        finally:
            os.unlink(f.name)
    return _D


def parse_sexp(txt):
    toks = re.findall(r"\(|\)|[^\s()]+", txt)
    pos = [0]

    def rd():
        t = toks[pos[0]]
        pos[0] += 1
        if t == "(":
            out = []
            while toks[pos[0]] != ")":
                out.append(rd())
            pos[0] += 1
            return out
        try:
            return int(t)
        except ValueError:
            return t
    return rd()


def to_spans(x):
    """[[0, 2], '-', [1, 2]] -> [(0,2), None, (1,2)] ; '-' -> None"""
    if x == "-":
        return None
    return [None if a == "-" else (a[0], a[1]) for a in x]


KNOWN = []


def strip_known(n, res):
    """exclusion by construction for open known findings (counts what it rewrites)"""
    k = n[0]
    if k == "rep":
        greedy = n[4]
        if not greedy and "KF-C20-nongreedy-fullmatch" in KNOWN:
            res.excluded["excluded_by_known_finding:nongreedy"] += 1
            greedy = True
        return ("rep", n[1], n[2], strip_known(n[3], res), greedy)
    if k == "or":
        alts = [strip_known(x, res) for x in n[1]]
        if "KF-C20-or-complement-set" in KNOWN and any(a[0] == "set" and a[2] for a in alts) and len([a for a in alts if a[0] in ("set", "lit", "range", "any", "nonl")]) == len(alts):
            res.excluded["excluded_by_known_finding:or-complement"] += 1
            alts = [("set", a[1], False) if a[0] == "set" else a for a in alts]
        return ("or", alts)
    if k == "seq":
        return ("seq", [strip_known(x, res) for x in n[1]])
    if k in ("sub", "nocase", "case"):
        return (k, strip_known(n[1], res))
    return n


def check_sre(node, maxlen, res, rng, strip=True):
    node = normalise(node)
    if strip:
        node = strip_known(node, res)
    feats = features(node)
    alpha = alphabet_for(feats)
    sre = render(node)
    if "nocase" not in feats and ("newline" in sre or "\\n" in sre):
        alpha = "ab\n"
    subs = subjects(alpha, maxlen)
    subm = submatches(node)
    prog = "(run-sre '%s %d (list %s))\n" % (sre, len(subm), " ".join(E.scm_str(s) for s in subs))
    r = driver().run(prog, cpu=20)
    hard = bool(feats & {"or-in-rep", "rep-in-rep", "sub-in-rep"})
    if r.status in ("cpu", "wall"):
        res.inconclusive += 1
        return None
    if r.status != "ok":
        return E.Found("crash", "regexp engine died on %s: %s %s" % (sre, r.status, r.err[-400:]))
    lines = [l for l in r.body.split("\n") if l.strip()]
    if lines and lines[0].strip() == "unsupported":
        res.excluded["unsupported_sre"] += 1
        return None
    if len(lines) != len(subs):
        err = [l for l in lines if "ERR" in l][:1]
        return E.Found("error-while-matching", "SRE %s: %d result lines for %d subjects %r" % (sre, len(lines), len(subs), err))
    for s, ln in zip(subs, lines):
        res.evaluations += 1
        if hard and len(s) >= 2:
            res.nontrivial.add(E.digest((sre, s)))
        try:
            parsed = parse_sexp(ln.strip())
            assert len(parsed) == 4
        except Exception:
            return E.Found("unparsable", "SRE %s subject %r: %r" % (sre, s, ln))
        M = Matcher(s)
        whole = len(s) in M.ends(node, 0)
        anywhere = any(M.ends(node, i) for i in range(len(s) + 1))
        if (parsed[0] == 1) != whole:
            return E.Found("matches?-wrong", "(regexp-matches? '%s %r) = %s, the whole string %s in the language" % (sre, s, parsed[0], "is" if whole else "is not"))
        ms = to_spans(parsed[1])
        if (ms is not None) != whole:
            return E.Found("matches-vs-matches?", "(regexp-matches '%s %r) %s a match but membership is %s" % (sre, s, "returned" if ms else "did not return", whole))
        ss = to_spans(parsed[2])
        if (ss is not None) != anywhere:
            return E.Found("search-wrong", "(regexp-search '%s %r) %s a match; a matching substring %s" % (sre, s, "returned" if ss else "did not return", "exists" if anywhere else "does not exist"))
        for what, spans in (("matches", ms), ("search", ss)):
            if spans is None:
                continue
            a, b = spans[0]
            if b not in M.ends(node, a) or (what == "matches" and (a, b) != (0, len(s))):
                return E.Found("%s-span-invalid" % what, "'%s on %r: overall span (%d,%d) does not delimit a match" % (sre, s, a, b))
            for k, sp in enumerate(spans[1:]):
                if sp is None or k >= len(subm):
                    continue
                sub, ci = subm[k]
                if sp[1] not in M.ends(sub, sp[0], ci) or not (a <= sp[0] <= sp[1] <= b):
                    return E.Found("%s-submatch-span-invalid" % what, "'%s on %r: submatch %d span %r does not delimit text matching %s (overall %r)" % (sre, s, k + 1, sp, render(sub), (a, b)))
        if parsed[3] == "fold-error":
            return E.Found("fold-error", "regexp-fold raised on '%s %r" % (sre, s))
        fs = to_spans(parsed[3]) if parsed[3] else []
        if feats & {"bos", "eos", "bol", "eol"}:
            fs = []     # SRFI 115 does not say whether anchors in regexp-fold refer to the whole string or to the rest
        last = 0
        for sp in fs or []:
            if sp is None or sp[1] not in M.ends(node, sp[0]) or sp[0] < last:
                return E.Found("fold-span-invalid", "'%s on %r: regexp-fold spans %r" % (sre, s, fs))
            last = sp[1]
    res.classes.update(["sre:" + f for f in feats])
    if rng.random() < 0.01 and len(res.samples) < 6:
        res.samples.append({"sre": sre, "subjects": len(subs)})
    return None


def shards(tier, seed, nshards, known):
    return [{"tier": tier, "seed": seed, "shard": i, "nshards": nshards, "known": known} for i in range(nshards)]


def run_shard(spec):
    res = E.ShardResult()
    quick = spec["tier"] != "thorough"
    KNOWN[:] = list(spec["known"])
    rng = random.Random(E.subseed(spec["seed"], "C20", spec["shard"]))
    maxlen = 4 if quick else 7
    fam = [n for i, n in enumerate(enum_small()) if i % spec["nshards"] == spec["shard"]]
    if quick:
        fam = [n for n in fam if rng.random() < 0.1]
    # char-set algebra: every (or s1 s2) of (possibly complemented) sets over {a, ab, b, abc}, both orders, in every tier
    sets = [("set", cs, neg) for cs in ("a", "ab", "b", "abc") for neg in (False, True)]
    algebra = [("or", [x, y]) for x in sets for y in sets if x != y] + [("or", [x, y, ("lit", "c")]) for x in sets[:4] for y in sets[4:]]
    # case folding over alternations of single characters / one-character strings / sets (compiled into one char-set state)
    singles = [("lit", "a"), ("lit", "b"), ("set", "ab", False), ("str", "a"), ("set", "b", False), ("lit", "A")]
    for x in singles:
        for y in singles:
            if x != y:
                algebra.append(("nocase", ("or", [x, y])))
                algebra.append(("nocase", ("rep", 1, None, ("or", [x, y]), True)))
                algebra.append(("seq", [("bos",), ("nocase", ("or", [x, y])), ("lit", "b")]))
    # anchors at every position relative to text that does / does not end in a newline: (x anchor), (anchor x), (x anchor y)
    # with x, y over newline, any, nonl, a letter, a set holding the newline and (* any); subjects over {a, b, newline}
    around = [("lit", "\n"), ("any",), ("nonl",), ("lit", "a"), ("set", "a\n", False), ("rep", 0, None, ("any",), True)]
    for anc in (("bol",), ("eol",), ("bos",), ("eos",)):
        for x in around:
            algebra.append(("seq", [x, anc]))
            algebra.append(("seq", [anc, x]))
            algebra.append(("rep", 1, None, ("seq", [x, anc]), True))
            for y in around:
                algebra.append(("seq", [x, anc, y]))
    fam += [n for i, n in enumerate(algebra) if i % spec["nshards"] == spec["shard"]]
    for n in fam:
        f = check_sre(n, maxlen, res, rng)
        if f:
            res.violation({"sre": render(normalise(n)), "tree": repr(n), "maxlen": maxlen}, "enum/" + f.signature, f.detail)
    if not quick:
        res.extra["exhaustive_small_sres"] = True
    last = {}

    def test(data):
        ch = E.HypChooser(data)
        g = SreGen(ch, "ab" if ch.p(0.3) else "abc")
        node = g.node(4)
        f = check_sre(node, maxlen, res, rng)
        if f:
            last["case"] = {"sre": render(normalise(node)), "tree": repr(node), "maxlen": maxlen}
            raise f

    E.hypothesis_search(st.data(), test, E.subseed(spec["seed"], "C20h", spec["shard"]), 25 if quick else 6000, res, to_case=lambda d: last.get("case"))
    if not res.samples:
        res.samples = [{"sre": render(normalise(n))} for n in fam[:3]]
    if _D is not None:
        _D.close()
    return res


def replay(case):
    res = E.ShardResult()
    node = eval(case["tree"], {"__builtins__": {}}, {})
    f = check_sre(node, case.get("maxlen", 5), res, random.Random(0), strip=False)
    if f:
        return {"signature": f.signature, "detail": f.detail, "case": case}
    return None


def matches_finding(v, f):
    """a violation matches a known finding only if its own (shrunk) SRE contains the construct"""
    tree = (v.get("case") or {}).get("tree", "")
    if f.get("id") == "KF-C20-nongreedy-fullmatch":
        return ", False)" in tree and v.get("signature", "").endswith("matches?-wrong")
    if f.get("id") == "KF-C20-or-complement-set":
        return "('or'" in tree and ", True)" in tree
    return False
