"""C02 -- GC never reclaims or corrupts reachable data.

Generated allocation-heavy expressions (typed grammar over the allocating primitives of
the R7RS libraries and the C-backed libraries) x forced-collection schedules.  Oracles:
(1) ASan build with the poisoning hook: a use of a swept object is a use-after-poison
report, and the heap checker runs after every sweep; (2) differential: output must be
byte-identical to the same program run without forced collections; (3) plain build
with scribbling (freed objects overwritten with 0xDB) for volume.
Thorough tier adds the existing test corpus under every-n-th schedules.
"""
import os
import random
import re
import tempfile

from .. import engine as E
from .. import exprgen as G
from ..worker import Driver, run_binary

VARIANTS = ["asan", "plain"]
CORE = ["(scheme base)", "(scheme write)", "(scheme read)", "(scheme char)", "(scheme inexact)", "(scheme eval)",
        "(scheme lazy)", "(scheme case-lambda)", "(scheme cxr)"]
LIBS = CORE + ["(srfi 1)", "(srfi 69)", "(srfi 95)", "(srfi 151)", "(srfi 18)", "(chibi json)", "(srfi 160 u8)"]
RULE = ("case = (expression tree from a typed grammar over allocating primitives, collection schedule, build); "
        "schedules: every allocation in a window [a,b), every n-th with phase (n in 2,3,7,61,499), seeded random; "
        "non-trivial iff >= 1 forced collection ran while the case was being read/compiled/executed and the case "
        "made >= 3 allocations; distinct by (expression, schedule, build)")
ASSUMPTIONS = ["programs are deterministic (no address-dependent iteration order is printed)",
               "the unforced run of the same build is the reference"]

PRELUDE = G.HELPERS + r"""
(define (write-result thunk)
  (write (guard (e ((error-object? e) (list 'error (error-object-message e))) (#t (list 'raised e))) (thunk)))
  (newline))
"""


def _prelude_file(libs):
    f = tempfile.NamedTemporaryFile("w", suffix=".scm", delete=False, dir="/var/tmp")
    f.write(PRELUDE + (G.LIB_HELPERS if libs else ""))
    f.close()
    return f.name


class Ctx:
    """lazily created drivers per (variant, profile)"""

    def __init__(self):
        self.drivers = {}
        self.base = {}

    def driver(self, variant, profile):
        k = (variant, profile)
        if k not in self.drivers:
            pf = _prelude_file(profile == "libs")
            try:
                env_extra = {}
                d = Driver(variant, imports=LIBS if profile == "libs" else CORE, prelude=pf, heap="4M/256M")
            finally:
                os.unlink(pf)
            self.drivers[k] = d
        return self.drivers[k]

    def close(self):
        for d in self.drivers.values():
            d.close()


def program(case):
    return "(write-result (lambda () %s))\n" % G.render(G.from_json(case["tree"]))


def run_case(ctx, case):
    """returns (violation-or-None, info dict)"""
    d = ctx.driver(case["build"], case["profile"])
    prog = program(case)
    bk = (case["build"], case["profile"], prog)
    if bk not in ctx.base:
        b = d.run(prog, cpu=30, poison=1 if case["build"] == "asan" else 0)
        ctx.base[bk] = b
        if len(ctx.base) > 2000:
            ctx.base.clear()
    b = ctx.base[bk]
    if b.status != "ok":
        # the unforced run itself fails: not a C02 matter (C01's domain) unless it is a sanitizer report
        if b.status == "crash":
            return ({"signature": "unforced-crash/" + sanitizer_site(b), "detail": "crash without any forced collection\n%s\nprogram: %s" % (b.sanitizer_summary(), prog)}, {"forced": 0})
        return (None, {"forced": 0, "inconclusive": True})
    opts = dict(gc=case["sched"], check=2, finalgc=1)
    if case["build"] == "asan":
        opts["poison"] = 1
    else:
        opts["scribble"] = 1
    r = d.run(prog, cpu=120, **opts)
    info = {"forced": (r.end or {}).get("forced", 0), "allocs": (r.end or {}).get("allocs", 0)}
    if r.status in ("cpu", "wall"):
        info["inconclusive"] = True
        return (None, info)
    if r.status == "crash" or r.status == "exited":
        return ({"signature": "crash/" + sanitizer_site(r),
                 "detail": "forced-GC run died: %s\nschedule=%s build=%s\nprogram: %s" % (r.sanitizer_summary(), case["sched"], case["build"], prog)}, info)
    if r.end.get("check_fail", 0):
        return ({"signature": "heap-check/" + r.end["msg"].split(" at ")[0],
                 "detail": "heap checker: %s\nschedule=%s\nprogram: %s" % (r.end["msg"], case["sched"], prog)}, info)
    if r.body != b.body:
        return ({"signature": "output-differs/" + "+".join(sorted(top_ops(case)))[:80],
                 "detail": "output differs under forced GC\nunforced: %r\nforced:   %r\nschedule=%s build=%s\nprogram: %s" % (b.body[:600], r.body[:600], case["sched"], case["build"], prog)}, info)
    return (None, info)


def top_ops(case):
    t = G.from_json(case["tree"])
    return [re.sub(r"[^a-z0-9!?*<>=/+-]+", " ", x).split()[0] if re.sub(r"[^a-z0-9!?*<>=/+-]+", " ", x).split() else "?" for x in list(G.ops(t))[:3]]


def sanitizer_site(r):
    fr = re.findall(r"#\d+ 0x[0-9a-f]+ in (\S+)", r.err)
    fr = [f for f in fr if not f.startswith("__") and f not in ("sexp_mark", "sexp_gc", "sexp_sweep")]
    kind = re.search(r"AddressSanitizer: (\S+)", r.err)
    return (kind.group(1) if kind else "signal%s" % r.code) + ":" + "<".join(fr[:3])


def gen_sched(rng, build):
    k = rng.random()
    if k < 0.4:
        a = rng.choice([0, 0, 100, 300, 380, 400, 500, rng.randrange(0, 1500), rng.randrange(0, 4000)])
        w = rng.choice([50, 100, 200]) if build == "asan" else rng.choice([50, 200, 400])
        return "window:%d:%d" % (a, a + w)
    if k < 0.8:
        n = rng.choice([2, 3, 7, 13, 61, 97, 499])
        return "every:%d:%d" % (n, rng.randrange(n))
    return "random:%d:%d" % (rng.choice([3000, 30000]), rng.randrange(1 << 30))


def gen_case(rng, build):
    profile = "libs" if rng.random() < 0.4 else "core"
    prods = G.merged_prods(profile == "libs")
    typ = rng.choice(["list", "list", "str", "vec", "big", "any", "bv", "rat", "intlist"])
    tree = G.gen(rng, typ, rng.choice([2, 3, 3, 4]), prods)
    return {"tree": G.to_json(tree), "profile": profile, "sched": gen_sched(rng, build), "build": build}


def shrink(ctx, case, sig):
    """greedy structural shrinking keeping the same signature"""
    cur = case
    improved = True
    budget = 60
    while improved and budget > 0:
        improved = False
        t = G.from_json(cur["tree"])
        for cand in G.shrink_candidates(t):
            budget -= 1
            if budget <= 0:
                break
            c2 = dict(cur, tree=G.to_json(cand))
            v, _ = run_case(ctx, c2)
            if v and v["signature"] == sig:
                cur = c2
                improved = True
                break
    return cur


def shards(tier, seed, nshards, known):
    return [{"tier": tier, "seed": seed, "shard": i, "nshards": nshards, "known": known} for i in range(nshards)]


def run_shard(spec):
    res = E.ShardResult()
    rng = random.Random(E.subseed(spec["seed"], "C02", spec["shard"]))
    ctx = Ctx()
    quick = spec["tier"] != "thorough"
    import time
    t0 = time.time()
    budget = 55 if quick else 1200
    n_asan = 0
    seen = set()
    while time.time() - t0 < budget and res.evaluations < (400 if quick else 200000):
        # count-bounded by evaluations; the time budget only stops the search early ("inconclusive" never a violation)
        build = "asan" if rng.random() < 0.35 else "plain"
        case = gen_case(rng, build)
        v, info = run_case(ctx, case)
        if info.get("inconclusive"):
            res.inconclusive += 1
        nt = info.get("forced", 0) >= 1 and info.get("allocs", 0) >= 3
        res.case({"program": program(case).strip(), "sched": case["sched"], "build": case["build"], "profile": case["profile"]},
                 nt, cls=["build:" + build, "sched:" + case["sched"].split(":")[0], "profile:" + case["profile"]])
        res.extra["forced_collections"] = res.extra.get("forced_collections", 0) + info.get("forced", 0)
        if v and v["signature"] not in seen:
            seen.add(v["signature"])
            small = shrink(ctx, case, v["signature"])
            v2, _ = run_case(ctx, small)
            if v2:
                v, case = v2, small
            res.violation(case, v["signature"], v["detail"])
    if not quick and spec["shard"] < len(CORPUS):
        corpus_shard(spec, res)
    ctx.close()
    return res


CORPUS = [
    ("tests/r7rs-tests.scm", "every:499:0"), ("tests/r7rs-tests.scm", "every:997:13"),
    ("tests/r5rs-tests.scm", "every:61:0"), ("tests/division-tests.scm", "every:61:7"),
    ("tests/syntax-tests.scm", "every:61:3"), ("tests/unicode-tests.scm", "every:61:1"),
    ("lib:srfi 1", "every:499:1"), ("lib:srfi 69", "every:251:0"), ("lib:srfi 95", "every:251:0"), ("lib:srfi 151", "every:251:5"),
    ("lib:srfi 18", "every:499:0"), ("lib:srfi 130", "every:499:0"), ("lib:chibi string", "every:499:0"),
    ("lib:chibi json", "every:251:0"), ("lib:chibi regexp", "every:997:0"), ("lib:srfi 160", "every:997:0"),
]


def corpus_args(item):
    if item.startswith("lib:"):
        name = item[4:]
        return ["-e", "(begin (import (%s test)) (run-tests))" % name] if not name.startswith("chibi ") else \
            ["-e", "(begin (import (%s-test)) (run-tests))" % name]
    return [item]


def normalise_corpus_output(s):
    s = re.sub(r"in [0-9.e+-]+ seconds", "in N seconds", s)
    s = re.sub(r"\x1b\[[0-9;]*m", "", s)
    return s


def corpus_shard(spec, res):
    item, sched = CORPUS[spec["shard"]]
    args = corpus_args(item)
    try:
        base = run_binary("asan", args, timeout=1800)
        forced = run_binary("asan", args, timeout=3600, extra_env={"CHIBI_VERIF_GC": sched, "CHIBI_VERIF_POISON": "1", "CHIBI_VERIF_CHECK": "1"})
    except Exception as e:  # timeout
        res.inconclusive += 1
        return
    case = {"corpus": item, "sched": sched}
    res.case(case, True, cls="corpus")
    bo = normalise_corpus_output(base.stdout.decode(errors="replace"))
    fo = normalise_corpus_output(forced.stdout.decode(errors="replace"))
    if b"AddressSanitizer" in forced.stderr or forced.returncode < 0:
        res.violation(case, "corpus-crash/" + item, forced.stderr.decode(errors="replace")[-3000:])
    elif bo != fo:
        res.violation(case, "corpus-output-differs/" + item, "outputs differ (normalised)\n--- unforced tail\n%s\n--- forced tail\n%s" % (bo[-800:], fo[-800:]))


_CTX = None


def replay(case):
    global _CTX
    if "corpus" in case:
        r = E.ShardResult()
        idx = [i for i, (it, sc) in enumerate(CORPUS) if it == case["corpus"] and sc == case["sched"]]
        if not idx:
            return None
        corpus_shard({"shard": idx[0]}, r)
        return r.violations[0] if r.violations else None
    if _CTX is None:
        _CTX = Ctx()
    v, info = run_case(_CTX, case)
    if v:
        v["case"] = case
    return v
