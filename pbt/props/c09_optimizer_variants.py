"""C09 -- optimisation passes and numeric build variants preserve program meaning.

(1) generated programs rich in foldable arithmetic, constant-bound lets, constant tests,
    dead branches holding erroring constants, and effectful statements in non-tail sequence
    positions are run by the same binary with the simplification pass on and off
    (SEXP_G_OPTIMIZATIONS emptied by the driver) -- outputs must be identical, and equal to
    the reference interpreter's output;
(2) a sample of the same programs is run on a build with -DSEXP_USE_SIMPLIFY=0;
(3) arithmetic tuples that go through the 128-bit helpers are evaluated on the default build
    and on a -DSEXP_USE_CUSTOM_LONG_LONGS=1 build; results must be identical to each other and
    to Python integers.
"""
import random

from hypothesis import strategies as st

from .. import engine as E
from .. import proggen as PG
from .. import refscheme as R
from ..worker import Driver
from . import c04_exact_arith as C04

VARIANTS = ["plain", "nosimp", "cll"]
IMPORTS = ["(scheme base)", "(scheme write)", "(scheme case-lambda)"]
RULE = ("case = program text from the C03 grammar biased to what simplify.c rewrites (literal operands incl. fixnum-overflowing, "
        "constant tests, constant-bound lets with shadowing/mutation, dead branches holding erroring constants, dead statements) "
        "run with the simplifier on/off in one binary, on the SEXP_USE_SIMPLIFY=0 build, and against refscheme; plus arithmetic "
        "tuples (* quotient remainder expt exact-integer-sqrt number->string string->number) on the default and the "
        "SEXP_USE_CUSTOM_LONG_LONGS=1 build against Python; non-trivial iff the program contains a constant test, a "
        "constant-bound let, a dead statement or a dead erroring branch (the forms the pass rewrites), or the arithmetic "
        "tuple has a bignum operand/result; distinct by case digest")
ASSUMPTIONS = ["programs whose meaning R7RS leaves undefined (errors in executed code other than raise/error) are not generated",
               "refscheme.py / Python integers are the reference"]
FOLD_TAGS = {"const-test", "const-let", "dead-stmt", "dead-error-branch", "big-const"}
CLL_OPS = ["*", "*3", "quotient", "remainder", "modulo", "expt", "exact-integer-sqrt", "number->string", "string->number", "square", "gcd", "+", "-"]

_DR = {}


def driver(v, numeric=False):
    k = (v, numeric)
    if k not in _DR:
        _DR[k] = Driver(v, imports=C04.IMPORTS if numeric else IMPORTS, prelude=C04.PRELUDE if numeric else None)
    return _DR[k]


def check_program(text, builds):
    try:
        (kind, val), ref = R.run(text, budget=300000)
    except (R.Budget, R.SchemeError, RecursionError):
        return None, "discard"
    outs = {}
    for name, variant, opts in builds:
        r = driver(variant).run(text, cpu=20, **opts)
        if r.status in ("cpu", "wall"):
            return None, "inconclusive"
        if r.status != "ok":
            return E.Found("crash/" + name, "%s died: %s %s\n%s" % (name, r.status, r.err[-600:], text)), "ok"
        outs[name] = r.body.rstrip("\n")
    names = list(outs)
    for n in names[1:]:
        if outs[n] != outs[names[0]]:
            return E.Found("differs/%s-vs-%s" % (names[0], n), "%s: %r\n%s: %r\nreference: %r\nprogram:\n%s" % (names[0], outs[names[0]], n, outs[n], ref, text)), "ok"
    if outs[names[0]] != ref.rstrip("\n"):
        return E.Found("all-differ-from-reference", "chibi (all variants): %r\nreference: %r\nprogram:\n%s" % (outs[names[0]], ref, text)), "ok"
    return None, "ok"


BUILDS_TOGGLE = [("opt", "plain", {}), ("noopt", "plain", {"noopt": 1})]
BUILDS_ALL = BUILDS_TOGGLE + [("nosimp-build", "nosimp", {})]


def shards(tier, seed, nshards, known):
    return [{"tier": tier, "seed": seed, "shard": i, "nshards": nshards, "known": known} for i in range(nshards)]


def run_shard(spec):
    res = E.ShardResult()
    quick = spec["tier"] != "thorough"
    rng = random.Random(E.subseed(spec["seed"], "C09", spec["shard"]))
    last = {}
    counter = [0]

    # variable-role patterns of C03 (captured / mutated / rest parameters read, assigned, unused ...): the passes decide
    # per variable whether it needs a box or a slot, so each pattern runs under every configuration
    from . import c03_core_semantics as C03
    for _ in range(40 if quick else 4000):
        roles = [rng.choice(C03.ROLES) for _ in range(rng.choice([1, 2, 2, 3, 3, 4]))]
        text = C03.capture_program(roles)
        found, status = check_program(text, BUILDS_ALL)
        if status == "discard":
            res.excluded["reference_discarded"] += 1
            continue
        if status == "inconclusive":
            res.inconclusive += 1
            continue
        res.case({"family": roles}, True, cls=["variable-roles", "builds:3"], sample=rng.random() < 0.01)
        if found:
            res.violation({"program": text}, "roles/" + found.signature, found.detail)

    # expressions that raise in statement (non-tail, value unused) position: R7RS calls these "an error", so there is no
    # reference value, but every configuration must agree on whether the error happens (dropping a "dead" call drops it)
    ops = ["(+ {a} {b})", "(- {a} {b})", "(* {a} {b})", "(/ {a} {b})", "(quotient {a} {b})", "(remainder {a} {b})", "(car {a})", "(vector-ref {v} {a})",
           "(string-length {a})", "(< {a} {b})", "(exact {b})", "(char->integer {a})", "(length {a})", "(apply + {a} '())", "(abs {a})"]
    vals = ["1", "0", "'a", "\"s\"", "x", "y", "1.5", "'()", "(quote (1))"]
    for _ in range(60 if quick else 3000):
        a, b = rng.choice(vals), rng.choice(vals)
        stmt = rng.choice(ops).format(a=a, b=b, v="(vector 1 2)")
        ctx = rng.choice(["(begin {s} 'ok)", "(let ((z 1)) {s} (+ z 1))", "((lambda (x) {s} x) 5)", "(if (begin {s} #t) 'yes 'no)",
                          "(let loop ((i 0)) (if (< i 2) (begin {s} (loop (+ i 1))) 'done))", "(begin (define (f x y) {s} (list x y)) (f 0 'q))"])
        text = ("(define x 0)\n(define y 'sym)\n(write (guard (e (#t 'raised)) %s))\n(newline)\n" % ctx.format(s=stmt))
        outs = {}
        bad = None
        for name, variant, opts in BUILDS_ALL:
            r = driver(variant).run(text, cpu=20, **opts)
            if r.status != "ok":
                bad = E.Found("crash/" + name, "%s died: %s %s\n%s" % (name, r.status, r.err[-400:], text))
                break
            outs[name] = r.body.strip()
        if bad is None and len(set(outs.values())) > 1:
            bad = E.Found("effectful-statement/configurations-differ", "%r\nprogram:\n%s" % (outs, text))
        res.case({"stmt": text}, "raised" in outs.values(), cls=["error-in-statement-position", "builds:3"], sample=rng.random() < 0.02)
        if bad:
            res.violation({"stmt_program": text}, bad.signature, bad.detail)

    def test(data):
        g = PG.Gen(E.HypChooser(data), max_depth=4, fold_bias=True)
        text = g.program()
        counter[0] += 1
        builds = BUILDS_ALL if counter[0] % 4 == 0 else BUILDS_TOGGLE
        found, status = check_program(text, builds)
        if status == "discard":
            res.excluded["reference_discarded"] += 1
            return
        if status == "inconclusive":
            res.inconclusive += 1
            return
        nt = bool(g.stats & FOLD_TAGS)
        res.case(text, nt, cls=sorted(g.stats & FOLD_TAGS) + ["builds:%d" % len(builds)], sample=nt and rng.random() < 0.02)
        if found:
            last["text"] = text
            raise found

    E.hypothesis_search(st.data(), test, E.subseed(spec["seed"], "C09h", spec["shard"]), 350 if quick else 30000, res,
                        to_case=lambda d: {"program": last.get("text")})

    # arithmetic across the cll build
    cases = []
    for _ in range(4000 if quick else 200000):
        c = C04.gen_case(rng, [], rng.choice(CLL_OPS))
        cases.append(c)
    for off in range(0, len(cases), C04.BATCH):
        chunk = cases[off:off + C04.BATCH]
        prog = "".join(C04.render(i, c) for i, c in enumerate(chunk))
        outs = {}
        for v in ("plain", "cll"):
            r = driver(v, True).run(prog, cpu=120)
            lines = {}
            for ln in r.body.split("\n"):
                k, _, rest = ln.partition("|")
                if k.isdigit():
                    lines[int(k)] = rest
            outs[v] = lines
        for i, c in enumerate(chunk):
            res.case({"arith": c}, C04.nontrivial(c), cls=["cll:" + c["op"]], sample=False)
            a, b = outs["plain"].get(i), outs["cll"].get(i)
            if a != b:
                res.violation({"arith": c}, "cll-differs/" + c["op"], "default build: %r\ncustom-long-longs build: %r\ncase=%r" % (a, b, c))
            elif b is not None:
                why = C04.judge(c, b)
                if why:
                    res.violation({"arith": c}, "cll-wrong/" + C04.sig(c, why), why + "\ncase=%r" % c)
    for d in _DR.values():
        d.close()
    _DR.clear()
    return res


def replay(case):
    if "stmt_program" in case:
        outs = {}
        for name, variant, opts in BUILDS_ALL:
            r = driver(variant).run(case["stmt_program"], cpu=20, **opts)
            outs[name] = r.body.strip() if r.status == "ok" else r.status
        if len(set(outs.values())) > 1:
            return {"signature": "effectful-statement/configurations-differ", "detail": repr(outs) + "\n" + case["stmt_program"], "case": case}
        return None
    if "arith" in case:
        c = case["arith"]
        prog = C04.render(0, c)
        outs = {}
        for v in ("plain", "cll"):
            r = driver(v, True).run(prog, cpu=60)
            outs[v] = next((ln[2:] for ln in r.body.split("\n") if ln.startswith("0|")), None)
        if outs["plain"] != outs["cll"]:
            return {"signature": "cll-differs/" + c["op"], "detail": repr(outs), "case": case}
        if outs["cll"] is not None:
            why = C04.judge(c, outs["cll"])
            if why:
                return {"signature": "cll-wrong/" + C04.sig(c, why), "detail": why, "case": case}
        return None
    found, status = check_program(case["program"], BUILDS_ALL)
    if found:
        return {"signature": found.signature, "detail": found.detail, "case": case}
    return None
