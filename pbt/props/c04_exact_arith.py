"""C04 -- exact arithmetic is mathematically exact at every magnitude.

Generated operand tuples (boundary lattice pairs + seeded random integers/ratios)
x operations x evaluation routes (inlined opcode on variables, apply of the
procedure object, literal operands that the simplifier folds); oracle = Python
int / Fraction.  Checked per case: printed value, representation class
(fixnum iff it fits, ratio in lowest terms), eqv? to the expected literal, and
that the operand variables still print as before (operands are values).
"""
import math
import os
import random
from fractions import Fraction

from .. import engine as E
from .. import numgen as N
from ..worker import Driver

VARIANTS = ["plain"]
IMPORTS = ["(scheme base)", "(scheme write)", "(only (chibi) fixnum? bignum? ratio? flonum?)"]
PRELUDE = os.path.join(E.VERIF, "harness", "scm", "prelude_num.scm")
RULE = ("case = (operation, operand tuple, route); generated from all pairs of the boundary lattice "
        "(0, +-1, +-2, fixnum limits +-2, 2^k and 2^k+-1 for k<=400 at every word boundary and every 8th k, "
        "interior all-ones/zero words) plus seeded random integers up to 4000 bits and random ratios; "
        "non-trivial iff an operand or the result is a bignum or a ratio, or the result's representation class "
        "differs from every operand's; distinct by (op, operands, route)")
ASSUMPTIONS = ["Python int/Fraction arithmetic is the reference",
               "decimal text of operands is the interface: the reader/writer for exact numbers is itself under test via the operand echo"]

BATCH = 400


def itrunc_div(n, d):
    q = abs(n) // abs(d)
    if (n < 0) != (d < 0):
        q = -q
    return q, n - d * q


def to_base(n, b):
    if isinstance(n, Fraction) and n.denominator != 1:
        return to_base(n.numerator, b) + "/" + to_base(n.denominator, b)
    n = int(n)
    if n == 0:
        return "0"
    digs = "0123456789abcdefghijklmnopqrstuvwxyz"
    s = []
    m = abs(n)
    while m:
        m, r = divmod(m, b)
        s.append(digs[r])
    return ("-" if n < 0 else "") + "".join(reversed(s))


def norm(x):
    if isinstance(x, Fraction) and x.denominator == 1:
        return x.numerator
    return x


class Err(Exception):
    pass


def chain(rel):
    def f(*xs):
        return [all(rel(xs[i], xs[i + 1]) for i in range(len(xs) - 1))]
    return f


def _expt(b, e):
    if b == 0 and e < 0:
        raise Err()
    return [norm(Fraction(b) ** e)]


def _div(*xs):
    if len(xs) == 1:
        if xs[0] == 0:
            raise Err()
        return [norm(Fraction(1) / xs[0])]
    r = Fraction(xs[0])
    for x in xs[1:]:
        if x == 0:
            raise Err()
        r = r / x
    return [norm(r)]


def _zdiv(f):
    def g(n, d):
        if d == 0:
            raise Err()
        return f(n, d)
    return g


def _round(x):
    return [round(Fraction(x))]


def _isqrt(n):
    if n < 0:
        raise Err()
    s = math.isqrt(n)
    return [s, n - s * s]


# name -> (domain, oracle, routes)
#  domain: string of operand kinds: Z integer, N integer (nonzero mostly), Q rational, E small exponent, P nonneg integer
OPS = {
    "+": ("QQ", lambda *x: [norm(sum(x, Fraction(0)))], "val"),
    "+3": ("QQQ", lambda *x: [norm(sum(x, Fraction(0)))], "val"),
    "-": ("QQ", lambda x, y: [norm(x - y)], "val"),
    "-1": ("Q", lambda x: [norm(-x)], "val"),
    "*": ("QQ", lambda x, y: [norm(x * y)], "val"),
    "*3": ("QQQ", lambda x, y, z: [norm(x * y * z)], "val"),
    "/": ("QM", _div, "val"),
    "/1": ("M", _div, "val"),
    "quotient": ("ZN", _zdiv(lambda n, d: [itrunc_div(n, d)[0]]), "val"),
    "remainder": ("ZN", _zdiv(lambda n, d: [itrunc_div(n, d)[1]]), "val"),
    "modulo": ("ZN", _zdiv(lambda n, d: [n % d]), "vl"),
    "floor/": ("ZN", _zdiv(lambda n, d: [n // d, n % d]), "vl"),
    "floor-quotient": ("ZN", _zdiv(lambda n, d: [n // d]), "vl"),
    "floor-remainder": ("ZN", _zdiv(lambda n, d: [n % d]), "vl"),
    "truncate/": ("ZN", _zdiv(lambda n, d: list(itrunc_div(n, d))), "vl"),
    "truncate-quotient": ("ZN", _zdiv(lambda n, d: [itrunc_div(n, d)[0]]), "vl"),
    "truncate-remainder": ("ZN", _zdiv(lambda n, d: [itrunc_div(n, d)[1]]), "vl"),
    "gcd": ("ZZ", lambda x, y: [math.gcd(x, y)], "vl"),
    "lcm": ("ZZ", lambda x, y: [abs(x * y) // math.gcd(x, y) if x and y else 0], "vl"),
    "abs": ("Q", lambda x: [norm(abs(x))], "vl"),
    "expt": ("QE", _expt, "vl"),
    "exact-integer-sqrt": ("P", _isqrt, "vl"),
    "numerator": ("Q", lambda x: [Fraction(x).numerator], "vl"),
    "denominator": ("Q", lambda x: [Fraction(x).denominator], "vl"),
    "floor": ("Q", lambda x: [math.floor(x)], "vl"),
    "ceiling": ("Q", lambda x: [math.ceil(x)], "vl"),
    "round": ("Q", _round, "vl"),
    "truncate": ("Q", lambda x: [math.trunc(x)], "vl"),
    "=": ("QQ", chain(lambda x, y: x == y), "val"),
    "<": ("QQ", chain(lambda x, y: x < y), "val"),
    ">": ("QQ", chain(lambda x, y: x > y), "val"),
    "<=": ("QQ", chain(lambda x, y: x <= y), "val"),
    ">=": ("QQ", chain(lambda x, y: x >= y), "val"),
    "<3": ("QQQ", chain(lambda x, y: x < y), "va"),
    "=3": ("QQQ", chain(lambda x, y: x == y), "va"),
    "min": ("QQ", lambda x, y: [norm(min(x, y))], "vl"),
    "max": ("QQ", lambda x, y: [norm(max(x, y))], "vl"),
    "square": ("Q", lambda x: [norm(x * x)], "vl"),
    "exact-integer?": ("Q", lambda x: [Fraction(x).denominator == 1], "vl"),
    "zero?": ("Q", lambda x: [x == 0], "vl"),
    "positive?": ("Q", lambda x: [x > 0], "vl"),
    "negative?": ("Q", lambda x: [x < 0], "vl"),
    "odd?": ("Z", lambda x: [x % 2 == 1], "vl"),
    "even?": ("Z", lambda x: [x % 2 == 0], "vl"),
    # special renderings
    "number->string": ("QR", None, "v"),
    "string->number": ("QR", None, "v"),
    "exact-inexact": ("F", None, "v"),
    "exact-scaled": ("FK", None, "v"),
}
OPNAMES = sorted(OPS)
HEAVY = {"expt"}


def scheme_name(op):
    return op.rstrip("13") if op[-1] in "13" and op[:-1] in ("+", "-", "*", "/", "<", "=") else op


def lit(x):
    if isinstance(x, bool):
        return "#t" if x else "#f"
    if isinstance(x, str):
        return E.scm_str(x)
    return N.num_text(x)


def parse_arg(s):
    return N.parse_num(s)


def expected(case):
    """returns list of expected results (python values) or 'ERR'"""
    op = case["op"]
    args = [parse_arg(a) for a in case["args"]]
    dom, f, _ = OPS[op]
    try:
        if op == "number->string":
            return [to_base(args[0], int(args[1]))]
        if op == "string->number":
            return [norm(args[0])]
        if op == "exact-inexact":
            return [args[0], True]
        if op == "exact-scaled":
            return [norm(Fraction(args[0], 2 ** int(args[1])))]
        return f(*args)
    except Err:
        return "ERR"


def render(i, case):
    op = case["op"]
    args = case["args"]
    route = case["route"]
    exp = expected(case)
    names = "abc"
    sets = " ".join("(set! %s %s)" % (names[k], a) for k, a in enumerate(args))
    vars_ = " ".join(names[:len(args)])
    sn = scheme_name(op)
    if op == "number->string":
        expr = "(number->string a b)"
    elif op == "string->number":
        txt = to_base(parse_arg(args[0]), int(args[1]))
        if case.get("upper"):
            txt = txt.upper()
        expr = "(string->number %s b)" % E.scm_str(txt)
    elif op == "exact-inexact":
        expr = "(values (exact (inexact a)) (= (inexact a) a))"
    elif op == "exact-scaled":
        expr = "(exact (/ (inexact a) (inexact (expt 2 b))))"
    elif route == "v":
        expr = "(%s %s)" % (sn, vars_)
    elif route == "a":
        expr = "(apply %s (list %s))" % (sn, vars_)
    else:
        expr = "(%s %s)" % (sn, " ".join(args))
    el = "()" if exp == "ERR" else "(" + " ".join(lit(x) for x in exp) + ")"
    return "(vcase %d (lambda () %s (call-with-values (lambda () %s) list)) '%s)\n" % (i, sets, expr, el)


def judge(case, line):
    """line: the text after 'id|'.  Returns None if fine, else detail string."""
    exp = expected(case)
    parts = line.split("|")
    if exp == "ERR":
        if parts[0] != "ERR":
            return "expected an error, got %r" % line
        return None
    if parts[0] == "ERR":
        return "unexpected error; expected %s" % [lit(x) for x in exp]
    if len(parts) != 4:
        return "malformed output %r" % line
    vals, classes, flags, echo = parts
    got = vals.split()
    op = case["op"]
    if op == "number->string":
        # compare by value, case-insensitively (digit case is not part of the claim)
        want = exp[0]
        g = got[0].strip('"') if got else ""
        if g.lower() != want.lower():
            return "number->string gave %r, expected %r" % (g, want)
    else:
        want = [lit(x) for x in exp]
        if got != want:
            return "values %r, expected %r" % (got, want)
        wc = "".join("O" if isinstance(x, (bool, str)) else N.num_class(x) for x in exp)
        if classes != wc:
            return "representation classes %r, expected %r (non-canonical result) values=%r" % (classes, wc, got)
        if flags != "T" * len(exp):
            return "eqv? to expected literal failed: %r values=%r" % (flags, got)
    if case["route"] != "l":
        ech = echo.split()
        for k, a in enumerate(case["args"]):
            if k < len(ech) and ech[k] != a:
                return "operand %s changed by the operation: was %s, now %s" % ("abc"[k], a, ech[k])
    return None


def nontrivial(case):
    exp = expected(case)
    args = [parse_arg(a) for a in case["args"]]
    cls = [N.num_class(a) for a in args]
    if any(c != "F" for c in cls):
        return True
    if exp == "ERR":
        return False
    for x in exp:
        if isinstance(x, (bool, str)):
            continue
        if N.num_class(x) != "F":
            return True
    return False


# ---------------------------------------------------------------------------
# generation

_LAT = None


def lat():
    global _LAT
    if _LAT is None:
        _LAT = N.lattice()
    return _LAT


def gen_operand(rng, kind, known):
    L = lat()
    r = rng.random()
    if kind == "Z":
        return L[rng.randrange(len(L))] if r < 0.6 else N.rand_int(rng)
    if kind == "N":
        x = L[rng.randrange(len(L))] if r < 0.6 else N.rand_int(rng)
        if x == 0 and rng.random() < 0.8:
            x = rng.choice((1, -1, 3, -7))
        return x
    if kind == "P":
        x = abs(L[rng.randrange(len(L))]) if r < 0.4 else abs(N.rand_int(rng, 2000))
        if r > 0.9:
            s = abs(N.rand_int(rng, 1000))
            x = s * s + rng.choice((-1, 0, 1, 2 * s, 2 * s + 1))
            x = abs(x)
        return x
    if kind in "QM":
        if r < 0.35:
            x = L[rng.randrange(len(L))]
        elif r < 0.55:
            x = N.rand_int(rng, 600)
        elif r < 0.8:
            x = Fraction(L[rng.randrange(len(L))], abs(L[rng.randrange(len(L))]) or 1)
        else:
            x = N.rand_ratio(rng)
        if kind == "M" and x == 0 and rng.random() < 0.8:
            x = Fraction(-3, 7)
        return x
    if kind == "E":
        return rng.choice((0, 1, 2, 3, -1, -2, 5, 17, 62, 63, 64, 65, 100, 127, 128, 200, -64, -65, rng.randrange(-200, 201)))
    if kind == "R":
        return rng.randrange(2, 37)
    if kind == "F":
        # integers exactly representable as doubles
        m = rng.getrandbits(rng.randrange(1, 54))
        k = rng.choice((0, 0, 1, 9, 10, 11, 12, 60, 61, 62, 63, 64, 100, 500, 900, rng.randrange(0, 960)))
        x = m << k
        return -x if rng.randrange(2) else x
    if kind == "K":
        return rng.choice((0, 1, 2, 10, 52, 53, 61, 62, 63, 64, 65, 100, 300, rng.randrange(0, 1000)))
    raise ValueError(kind)


def gen_case(rng, known, op=None):
    op = op or rng.choice(OPNAMES)
    dom, f, routes = OPS[op]
    args = [gen_operand(rng, k, known) for k in dom]
    if op in HEAVY:
        # keep expt results below ~6000 bits (ratio powers are quadratic in chibi)
        b = Fraction(args[0])
        size = max(b.numerator.bit_length(), b.denominator.bit_length())
        if size * abs(args[1]) > 6000:
            if rng.random() < 0.5:
                args[0] = Fraction(rng.randrange(-50, 50), rng.randrange(1, 50))
            else:
                args[1] = rng.choice((0, 1, 2, 3, -1, -2, -3))
                if size * abs(args[1]) > 6000:
                    args[0] = rng.choice((2, -2, 10, Fraction(-3, 2)))
    if dom[:2] in ("ZN",) and rng.random() < 0.3:
        # exact multiples and near-multiples
        d = args[1] or 1
        q = gen_operand(rng, "Z", known)
        args[0] = q * d + rng.choice((0, 0, 1, -1, abs(d) - 1))
    if op in ("exact-scaled",):
        pass
    if op == "lcm" and args[0] == 0 and args[1] == 0:
        args[1] = 6      # (lcm 0 0) has no agreed mathematical value; R7RS does not define it
    case = {"op": op, "args": [N.num_text(a) for a in args], "route": rng.choice(routes)}
    if op == "string->number" and rng.randrange(2):
        case["upper"] = 1
    return case


def lattice_pairs(op, shard, nshards, limit, rng):
    """all (or a seeded sample of) lattice x lattice operand pairs for a binary op"""
    L = lat()
    n = len(L)
    total = n * n
    idxs = range(shard, total, nshards)
    if limit and len(idxs) > limit:
        idxs = rng.sample(idxs, limit)
    dom, f, routes = OPS[op]
    for ix in idxs:
        x, y = L[ix // n], L[ix % n]
        if op == "lcm" and x == 0 and y == 0:
            continue
        yield {"op": op, "args": [N.num_text(x), N.num_text(y)], "route": routes[ix % len(routes)]}


LATTICE_OPS = ["+", "-", "*", "quotient", "remainder", "modulo", "/", "floor/", "truncate/", "gcd", "lcm", "<", "="]


def excluded(case, known):
    """exclusion-by-construction for open known findings"""
    return False


def shards(tier, seed, nshards, known):
    return [{"tier": tier, "seed": seed, "shard": i, "nshards": nshards, "known": known} for i in range(nshards)]


def make_driver():
    return Driver("plain", imports=IMPORTS, prelude=PRELUDE)


def run_cases(d, cases, res, known):
    """runs cases in batches; reports into res"""
    for off in range(0, len(cases), BATCH):
        chunk = cases[off:off + BATCH]
        prog = "".join(render(i, c) for i, c in enumerate(chunk))
        r = d.run(prog, cpu=120)
        lines = {}
        for ln in r.body.split("\n"):
            if "|" in ln:
                k, _, rest = ln.partition("|")
                if k.isdigit():
                    lines[int(k)] = rest
        for i, c in enumerate(chunk):
            nt = nontrivial(c)
            res.case(c, nt, cls=["op:" + c["op"], "route:" + c["route"]])
            if i not in lines:
                if r.status in ("cpu", "wall"):
                    res.inconclusive += 1
                    continue
                # find the first missing case: evaluate alone
                v = replay(c, d)
                if v:
                    res.violation(c, v["signature"], v["detail"])
                continue
            why = judge(c, lines[i])
            if why:
                res.violation(c, sig(c, why), why)


def sig(case, why):
    if why.startswith("operand"):
        kind = "operand-changed"
    elif why.startswith("values") or why.startswith("number->string"):
        kind = "wrong-value"
    elif why.startswith("representation"):
        kind = "non-canonical"
    elif why.startswith("eqv?"):
        kind = "not-eqv"
    elif why.startswith("expected an error"):
        kind = "missing-error"
    elif why.startswith("unexpected error"):
        kind = "unexpected-error"
    else:
        kind = "malformed"
    return "%s/%s" % (case["op"], kind)


def run_shard(spec):
    res = E.ShardResult()
    rng = random.Random(E.subseed(spec["seed"], "C04", spec["shard"]))
    d = make_driver()
    quick = spec["tier"] != "thorough"
    cases = []
    # (1) lattice pairs
    per_op = 2500 if quick else None
    for op in LATTICE_OPS:
        cases.extend(lattice_pairs(op, spec["shard"], spec["nshards"], per_op, rng))
        if len(cases) >= 20000:
            run_cases(d, cases, res, spec["known"])
            cases = []
    # (2) seeded random over all operations
    nrand = 14000 if quick else 400000
    for _ in range(nrand):
        cases.append(gen_case(rng, spec["known"]))
        if len(cases) >= 20000:
            run_cases(d, cases, res, spec["known"])
            cases = []
    run_cases(d, cases, res, spec["known"])
    if not quick:
        res.extra["exhaustive_lattice_pairs"] = True
    d.close()
    return res


_D = None


def replay(case, d=None):
    global _D
    if d is None:
        if _D is None:
            _D = make_driver()
        d = _D
    r = d.run(render(0, case), cpu=60)
    if r.status != "ok":
        return {"signature": "%s/%s/%s" % (case["op"], case["route"], r.status),
                "detail": "status=%s %s" % (r.status, r.err[-500:] or r.out[-300:]), "case": case}
    for ln in r.body.split("\n"):
        if ln.startswith("0|"):
            why = judge(case, ln[2:])
            if why:
                return {"signature": sig(case, why), "detail": "%s\ncase=%r\noutput=%r" % (why, case, ln[:600]), "case": case}
            return None
    return {"signature": "%s/%s/no-output" % (case["op"], case["route"]), "detail": "no result line; out=%r" % r.out[-500:], "case": case}
