"""Variant builds of /repo's *current working tree* (plus the harness) in a scratch
directory outside /repo and /verif.

A build is keyed by the hash of every source file of the working tree (tracked
and untracked, minus _build/.git), of /verif/harness, and of the variant flags;
if a directory for that key already exists it is reused (same bytes in => same
binary out, as ccache would do), otherwise it is built from a fresh rsync copy.
The cache is bounded (LRU) and lives in VERIF_BUILD_CACHE (default
/var/tmp/chibi-verif-builds).
"""
import fcntl
import hashlib
import os
import shutil
import subprocess
import sys
import time

REPO = os.environ.get("VERIF_REPO", "/repo")
VERIF = os.path.dirname(os.path.dirname(os.path.abspath(__file__)))
HARNESS = os.path.join(VERIF, "harness")
CACHE = os.environ.get("VERIF_BUILD_CACHE", "/var/tmp/chibi-verif-builds")
MAX_CACHED = int(os.environ.get("VERIF_BUILD_CACHE_MAX", "10"))
BUILD_TIMEOUT = 400

HOOKS = "-DSEXP_USE_VERIF_HOOKS=1 -I%s" % HARNESS

VARIANTS = {
    # name: (CC, CFLAGS, LDFLAGS, CPPFLAGS)
    "asan": ("clang", "-g -O1 -fsanitize=address -fno-omit-frame-pointer", "-fsanitize=address", HOOKS),
    "plain": ("gcc", "-g -O2", "", HOOKS),
    "nosimp": ("gcc", "-g -O2", "", HOOKS + " -DSEXP_USE_SIMPLIFY=0"),
    "cll": ("gcc", "-g -O2", "", HOOKS + " -DSEXP_USE_CUSTOM_LONG_LONGS=1"),
    "tsan": ("clang", "-g -O1 -fsanitize=thread -fno-omit-frame-pointer", "-fsanitize=thread", ""),
    "stock": ("gcc", "-g -O2", "", ""),
}

ASAN_ENV = "detect_leaks=0:detect_odr_violation=0:abort_on_error=1:allocator_may_return_null=1:handle_segv=1"


class BuildFailed(Exception):
    pass


def _source_files():
    out = subprocess.run(
        ["git", "-C", REPO, "ls-files", "-co", "--exclude-standard"],
        capture_output=True, text=True, check=True).stdout.split("\n")
    files = []
    for f in out:
        if not f or f.startswith("_build/") or f.startswith(".git/"):
            continue
        files.append(f)
    files.sort()
    return files


def tree_hash():
    h = hashlib.sha256()
    for f in _source_files():
        p = os.path.join(REPO, f)
        try:
            if os.path.islink(p):
                data = os.readlink(p).encode()
            elif os.path.isfile(p):
                with open(p, "rb") as fh:
                    data = fh.read()
            else:
                continue
        except OSError:
            continue
        h.update(f.encode() + b"\0" + str(len(data)).encode() + b"\0")
        h.update(data)
    for name in sorted(os.listdir(HARNESS)):
        p = os.path.join(HARNESS, name)
        if os.path.isfile(p):
            with open(p, "rb") as fh:
                h.update(name.encode() + b"\0" + fh.read())
    return h.hexdigest()[:20]


def _prune(keep):
    try:
        entries = [os.path.join(CACHE, d) for d in os.listdir(CACHE)
                   if os.path.isdir(os.path.join(CACHE, d)) and not d.endswith(".tmp")]
    except OSError:
        return
    entries.sort(key=lambda d: os.path.getmtime(d), reverse=True)
    now = time.time()
    for d in entries[MAX_CACHED:]:
        # a build that was used within the last half hour may belong to a check that is still running
        if d != keep and now - os.path.getmtime(d) > 1800:
            shutil.rmtree(d, ignore_errors=True)
            try:
                os.unlink(d + ".lock")
            except OSError:
                pass


def build(variant, log=sys.stderr):
    """Returns the directory holding chibi-scheme, libchibi-scheme.so, lib/, vdriver."""
    cc, cflags, ldflags, cppflags = VARIANTS[variant]
    os.makedirs(CACHE, exist_ok=True)
    key = "%s-%s" % (tree_hash(), variant)
    flagh = hashlib.sha256(repr(VARIANTS[variant]).encode()).hexdigest()[:6]
    d = os.path.join(CACHE, key + "-" + flagh)
    lock = open(d + ".lock", "w")
    fcntl.flock(lock, fcntl.LOCK_EX)
    try:
        if os.path.exists(os.path.join(d, ".ok")):
            os.utime(d, None)
            return d
        t0 = time.time()
        shutil.rmtree(d, ignore_errors=True)
        os.makedirs(d)
        subprocess.run(["rsync", "-a", "--exclude", "_build", "--exclude", ".git", REPO + "/", d + "/"], check=True)
        cmd = ["make", "-C", d, "-j16", "CC=" + cc, "CFLAGS=" + cflags, "LDFLAGS=" + ldflags, "CPPFLAGS=" + cppflags]
        env = dict(os.environ)
        env["ASAN_OPTIONS"] = "detect_leaks=0:detect_odr_violation=0"
        env.pop("CHIBI_VERIF_GC", None)
        try:
            r = subprocess.run(cmd, stdout=subprocess.PIPE, stderr=subprocess.STDOUT, timeout=BUILD_TIMEOUT, env=env)
        except subprocess.TimeoutExpired:
            shutil.rmtree(d, ignore_errors=True)
            raise BuildFailed("make timed out (%s)" % variant)
        if r.returncode != 0:
            tail = r.stdout.decode(errors="replace")[-3000:]
            shutil.rmtree(d, ignore_errors=True)
            raise BuildFailed("make failed (%s):\n%s" % (variant, tail))
        # harness programs
        for src, exe, extra in (("vdriver.c", "vdriver", []), ("vthreads.c", "vthreads", ["-lpthread"])):
            sp = os.path.join(HARNESS, src)
            if not os.path.exists(sp):
                continue
            cmd = [cc] + cflags.split() + cppflags.split() + ["-I" + os.path.join(d, "include"), "-I" + HARNESS,
                   sp, "-o", os.path.join(d, exe), "-L" + d, "-lchibi-scheme", "-Wl,-rpath," + d, "-lm", "-ldl"] + ldflags.split() + extra
            r = subprocess.run(cmd, stdout=subprocess.PIPE, stderr=subprocess.STDOUT)
            if r.returncode != 0:
                tail = r.stdout.decode(errors="replace")[-3000:]
                shutil.rmtree(d, ignore_errors=True)
                raise BuildFailed("harness compile failed (%s %s):\n%s" % (variant, src, tail))
        open(os.path.join(d, ".ok"), "w").write("%.1f\n" % (time.time() - t0))
        print("[build] %s built in %.1fs -> %s" % (variant, time.time() - t0, d), file=log)
        _prune(d)
        return d
    finally:
        fcntl.flock(lock, fcntl.LOCK_UN)
        lock.close()


def run_env(d, variant=None):
    env = dict(os.environ)
    env["LD_LIBRARY_PATH"] = d
    env["CHIBI_IGNORE_SYSTEM_PATH"] = "1"
    env["CHIBI_MODULE_PATH"] = os.path.join(d, "lib")
    env["ASAN_OPTIONS"] = ASAN_ENV
    env["TSAN_OPTIONS"] = "halt_on_error=0:report_signal_unsafe=0"
    return env


if __name__ == "__main__":
    v = sys.argv[1] if len(sys.argv) > 1 else "plain"
    try:
        print(build(v))
    except BuildFailed as e:
        print("BUILD-FAILED", e)
        sys.exit(2)
