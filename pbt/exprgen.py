"""Typed random expression generator over allocating primitives (used by C02, C10, C01).

An expression is a tree  (type, template, [children])  where the template is a
Scheme text with {0} {1} ... holes; leaves have no children.  Generation is a
pure function of the random.Random passed in.  shrink_candidates() yields
smaller trees of the same type for delta-debugging a failing case.
"""

# type -> list of (template, [child types])   (leaves have [] children)
LEAVES = {
    "int": ["0", "1", "2", "3", "7", "10", "-1", "-5", "255", "1000"],
    "big": ["(expt 3 80)", "12345678901234567890123456789", "-98765432109876543210987654321", "(expt 2 64)",
            "(- (expt 2 62))", "(* 4611686018427387903 4)", "1180591620717411303424"],
    "rat": ["1/3", "-22/7", "(/ (expt 3 50) (expt 2 70))"],
    "flo": ["1.5", "-0.25", "3.141592653589793", "1e21", "6.02e23", "(sqrt 2)"],
    "char": ["#\\a", "#\\Z", "#\\space", "#\\x3bb", "#\\x4e16", "#\\x1F600", "#\\0"],
    "str": ['"hello"', '""', '"a"', '"hello, world: 0123456789"', '"\\x3bb;x\\x4e16;y\\x1F600;"', '"(1 2 #(3 4) \\"s\\" 5.5)"',
            '(make-string 40 #\\z)', '"line1\\nline2\\n"'],
    "sym": ["'foo", "'bar", "'|hello world|", "(string->symbol \"gen-sym-1\")"],
    "list": ["'()", "'(1 2 3)", "'(a b c d e)", "(list 1 2 3 4 5 6 7 8)", "'((a . 1) (b . 2) (c . 3))", "'(3 1 4 1 5 9 2 6 5 3 5)",
             '\'("x" "yy" "zzz")', "(iota 30)"],
    "vec": ["(vector)", "(vector 1 2 3)", "#(a b c)", "(make-vector 17 'x)", "(vector 5 3 8 1 9 2)"],
    "bv": ["(bytevector)", "(bytevector 1 2 3)", "(bytevector 104 101 108 108 111)", "(make-bytevector 33 7)", "(bytevector 206 187 228 184 150)"],
    "bool": ["#t", "#f"],
    "proc1": ["(lambda (x) x)", "(lambda (x) (list x x))", "car-or-self", "(lambda (x) (cons x '()))", "(lambda (x) (vector x))",
              "number->string-or-self"],
    "proc2": ["cons", "(lambda (x y) (list y x))", "(lambda (x y) x)", "list"],
    "any": ["'()", "42", '"s"', "'sym", "#\\c", "1.5", "#t"],
}

PRODS = {
    "int": [
        ("(+ {0} {1})", ["int", "int"]), ("(* {0} {1})", ["int", "int"]), ("(- {0} {1})", ["int", "int"]),
        ("(string-length {0})", ["str"]), ("(length {0})", ["list"]), ("(vector-length {0})", ["vec"]),
        ("(bytevector-length {0})", ["bv"]), ("(char->integer {0})", ["char"]),
        ("(quotient {0} (+ 1 (abs {1})))", ["big", "int"]), ("(remainder {0} (+ 3 (abs {1})))", ["big", "big"]),
        ("(apply + {0})", ["intlist"]), ("(call/cc (lambda (k) (+ 1 (k {0}))))", ["int"]),
        ("(call-with-values (lambda () (values {0} {1})) +)", ["int", "int"]),
        ("(vector-ref (vector {0} {1} {2}) 1)", ["int", "int", "int"]),
        ("(let loop ((i 0) (acc 0)) (if (< i 20) (loop (+ i 1) (+ acc (length (list i i)))) (+ acc {0})))", ["int"]),
        ("(exact (floor {0}))", ["flo"]), ("(string->number (number->string {0}))", ["int"]),
        ("(car (list {0}))", ["int"]),
    ],
    "intlist": [
        ("(list {0} {1} {2})", ["int", "int", "int"]), ("(map (lambda (x) (* x x)) {0})", ["intlist"]),
        ("(iota 12)", []), ("(vector->list (vector {0} {1}))", ["int", "int"]), ("(map string-length {0})", ["strlist"]),
        ("(append {0} {1})", ["intlist", "intlist"]), ("(reverse {0})", ["intlist"]), ("(map + {0} {1})", ["intlist", "intlist"]),
        ("(bytevector->list* {0})", ["bv"]),
    ],
    "strlist": [
        ("(list {0} {1})", ["str", "str"]), ("(map number->string {0})", ["intlist"]), ("(map symbol->string (list {0} {1}))", ["sym", "sym"]),
        ("(map (lambda (s) (string-append s \"!\")) {0})", ["strlist"]),
    ],
    "big": [
        ("(* {0} {1})", ["big", "big"]), ("(+ {0} {1})", ["big", "big"]), ("(- {0} {1})", ["big", "int"]),
        ("(expt {0} 9)", ["int"]), ("(* {0} {0} {0})", ["big"]), ("(quotient (* {0} {1}) (+ 1 (abs {2})))", ["big", "big", "int"]),
        ("(string->number (number->string {0} 16) 16)", ["big"]), ("(exact (* 1e30 {0}))", ["flo"]),
        ("(let loop ((i 0) (acc 1)) (if (< i 25) (loop (+ i 1) (* acc (+ 3 i))) (+ acc {0})))", ["big"]),
        ("(gcd {0} {1})", ["big", "big"]), ("(abs {0})", ["big"]), ("(exact-integer-sqrt* {0})", ["big"]),
        ("(numerator {0})", ["rat"]),
    ],
    "rat": [
        ("(/ {0} (+ 7 (abs {1})))", ["big", "big"]), ("(+ {0} {1})", ["rat", "rat"]), ("(* {0} {1})", ["rat", "rat"]),
        ("(/ 1 (+ 3 (abs {0})))", ["int"]), ("(- {0} {1})", ["rat", "int"]), ("(exact {0})", ["flo"]),
    ],
    "flo": [
        ("(+ {0} {1})", ["flo", "flo"]), ("(* {0} 1.5)", ["flo"]), ("(inexact {0})", ["rat"]), ("(inexact {0})", ["big"]),
        ("(sqrt (abs {0}))", ["flo"]), ("(/ {0} 3.0)", ["flo"]), ("(string->number (number->string {0}))", ["flo"]),
        ("(exp (/ {0} 100.))", ["int"]), ("(atan {0} 2.)", ["flo"]),
    ],
    "char": [
        ("(string-ref (string-append \"q\" {0}) 0)", ["str"]), ("(integer->char (+ 65 (modulo {0} 26)))", ["int"]),
        ("(char-upcase {0})", ["char"]), ("(car (string->list (string {0})))", ["char"]),
    ],
    "str": [
        ("(string-append {0} {1})", ["str", "str"]), ("(string-append {0} {1} {2})", ["str", "str", "str"]),
        ("(number->string {0})", ["big"]), ("(number->string {0})", ["flo"]), ("(number->string {0} 2)", ["int"]),
        ("(symbol->string {0})", ["sym"]), ("(list->string (list {0} {1}))", ["char", "char"]),
        ("(string-copy {0})", ["str"]), ("(substring* {0} 1 3)", ["str"]), ("(make-string (modulo {0} 50) {1})", ["int", "char"]),
        ("(string {0} {1} {0})", ["char", "char"]), ("(string-upcase {0})", ["str"]), ("(string-downcase {0})", ["str"]),
        ("(utf8->string {0})", ["bv8"]), ("(list->string (reverse (string->list {0})))", ["str"]),
        ("(let ((p (open-output-string))) (write {0} p) (display {1} p) (get-output-string p))", ["any", "any"]),
        ("(let ((s (string-append \"abc\" {0}))) (string-set! s 1 {1}) s)", ["str", "char"]),
        ("(let ((s (string-copy {0}))) (string-fill! s #\\*) s)", ["str"]),
        ("(string-map char-upcase {0})", ["str"]), ("(apply string-append {0})", ["strlist"]),
        ("(let ((p (open-input-string {0}))) (let ((l (read-line p))) (if (eof-object? l) \"\" l)))", ["str"]),
        ("(let ((p (open-input-string {0}))) (let ((l (read-string 4 p))) (if (eof-object? l) \"\" l)))", ["str"]),
        ("(guard (e ((error-object? e) (error-object-message e))) (error {0} {1} {2}))", ["str", "any", "any"]),
        ("(guard (e ((string? e) (string-append e \"-caught\"))) (raise {0}))", ["str"]),
        ("(with-exception-handler (lambda (e) \"handled\") (lambda () (string-append (raise-continuable {0}) \"!\")))", ["any"]),
        ("(vector-ref (vector {0} {1}) 0)", ["str", "any"]), ("(string-join* {0})", ["strlist"]),
        ("(call-with-output-string* (lambda (p) (write {0} p)))", ["list"]),
    ],
    "bv8": [
        ("(string->utf8 {0})", ["str"]), ("(bytevector 97 98 99)", []), ("(bytevector-copy (string->utf8 {0}))", ["str"]),
        ("(bytevector-append (string->utf8 {0}) (string->utf8 {1}))", ["str", "str"]),
    ],
    "sym": [
        ("(string->symbol {0})", ["str"]), ("(car (list {0} {1}))", ["sym", "sym"]),
        ("(string->symbol (string-append \"s\" (number->string {0})))", ["int"]),
    ],
    "list": [
        ("(list {0} {1})", ["any", "any"]), ("(list {0} {1} {2} {3})", ["any", "any", "any", "any"]), ("(cons {0} {1})", ["any", "list"]),
        ("(append {0} {1})", ["list", "list"]), ("(append {0} {1} {2})", ["list", "list", "list"]), ("(reverse {0})", ["list"]),
        ("(list-copy {0})", ["list"]), ("(map {0} {1})", ["proc1", "list"]), ("(map {0} {1} {2})", ["proc2", "list", "list"]),
        ("(vector->list {0})", ["vec"]), ("(string->list {0})", ["str"]), ("(make-list (modulo {0} 40) {1})", ["int", "any"]),
        ("(list-tail* {0} 2)", ["list"]), ("(apply list {0} {1})", ["any", "list"]), ("(apply {0} {1} (list {2}))", ["proc2", "any", "any"]),
        ("(let ((l (list-copy {0}))) (if (pair? l) (set-car! l {1})) l)", ["list", "any"]),
        ("(let loop ((i 0) (acc '())) (if (< i 30) (loop (+ i 1) (cons (list i {0}) acc)) acc))", ["any"]),
        ("`(1 ,{0} ,@{1} end)", ["any", "list"]), ("(call-with-values (lambda () (values {0} {1})) list)", ["any", "any"]),
        ("(read (open-input-string {0}))", ["readable"]), ("(assq* 'b {0})", ["list"]), ("(member* {0} {1})", ["any", "list"]),
        ("(let ((k #f) (n 0) (acc '())) (set! acc (cons (call/cc (lambda (c) (set! k c) 0)) acc)) (set! n (+ n 1)) (if (< n 3) (k n)) (cons {0} acc))", ["any"]),
        ("(let ((log '())) (dynamic-wind (lambda () (set! log (cons 'in log))) (lambda () (set! log (cons {0} log))) (lambda () (set! log (cons 'out log)))) log)", ["any"]),
        ("(let ((p (make-parameter {0} (lambda (x) (list x))))) (parameterize ((p {1})) (list (p) (p))))", ["any", "any"]),
        ("(call-with-values (lambda () (floor/ {0} (+ 7 (abs {1})))) list)", ["big", "big"]),
        ("(call-with-values (lambda () (exact-integer-sqrt (abs {0}))) list)", ["big"]),
        ("(let-values (((a b) (values {0} {1})) ((c) (values {2}))) (list c b a))", ["any", "any", "any"]),
        ("(do ((i 0 (+ i 1)) (acc '() (cons (make-vector 3 i) acc))) ((= i 10) acc))", []),
        ("(let ((r (make-rec {0} {1}))) (set-rec-b! r {2}) (list (rec-a r) (rec-b r) (rec? r)))", ["any", "any", "any"]),
        ("(force (delay (list {0} {1})))", ["any", "any"]), ("(let-syntax ((m (syntax-rules () ((_ a b) (list b a))))) (m {0} {1}))", ["any", "any"]),
        ("(case-lambda-test {0} {1})", ["any", "any"]), ("(string-split* {0})", ["str"]),
        ("(let ((v (vector 1 2 3))) (vector-for-each (lambda (x) (set! v (vector x v))) (vector 4 5 6)) (vector->list v))", []),
        ("(eval '(map (lambda (x) (cons x {0})) '(1 2)) (the-env))", ["int"]),
        ("(char-list* {0})", ["str"]),
        # errors raised by VM opcodes / primitives themselves: the exception object (message, irritants) is built while the
        # irritants are only referenced from the VM stack; they are inspected after further allocation
        ("(guard (e (#t (let ((junk (make-vector 40 {2}))) (list (error-object-message e) (error-object-irritants e) (vector-length junk))))) (vector-ref (vector {0} {1}) 5))", ["any", "any", "any"]),
        ("(guard (e (#t (list (error-object-message e) (error-object-irritants e)))) (car {0}))", ["int"]),
        ("(guard (e (#t (list (error-object-message e) (error-object-irritants e)))) (string-ref {0} 1000))", ["str"]),
        ("(guard (e (#t (list (error-object-message e) (error-object-irritants e)))) (+ {0} {1}))", ["str", "big"]),
        ("(guard (e (#t (list (error-object-message e) (error-object-irritants e)))) (vector-set! (vector 1) 7 {0}))", ["list"]),
        ("(guard (e (#t (list (error-object? e) (error-object-irritants e)))) (apply (lambda (a) a) {0}))", ["list"]),
        ("(guard (e (#t (list (error-object-message e) (error-object-irritants e)))) (bytevector-u8-ref {0} 999))", ["bv8"]),
        ("(guard (e (#t (list (error-object-message e) (error-object-irritants e)))) (cdr (vector-ref (vector {0}) 0)))", ["str"]),
        ("(guard (e (#t (list (error-object-message e) (error-object-irritants e)))) (quotient {0} 0))", ["big"]),
    ],
    "readable": [
        ('"(a b (c . d) #(1 2) \\"str\\" 1.5 #\\\\x)"', []), ("(number->string {0})", ["big"]),
        ("(let ((p (open-output-string))) (write {0} p) (get-output-string p))", ["list"]),
        ('"#0=(1 2 . #0#)"', []), ('"(quote (1 . (2 . (3 . ()))))"', []), ('"#u8(1 2 3)"', []),
    ],
    "vec": [
        ("(vector {0} {1} {2})", ["any", "any", "any"]), ("(make-vector (modulo {0} 60) {1})", ["int", "any"]),
        ("(list->vector {0})", ["list"]), ("(vector-map {0} {1})", ["proc1", "vec"]), ("(vector-append {0} {1})", ["vec", "vec"]),
        ("(vector-copy {0})", ["vec"]), ("(let ((v (vector-copy {0}))) (vector-fill! v {1}) v)", ["vec", "any"]),
        ("(string->vector {0})", ["str"]), ("(vector-map (lambda (x) (make-string 3 #\\a)) {0})", ["vec"]),
        ("(let ((v (make-vector 5 0))) (vector-copy! v 1 (vector {0} {1})) v)", ["any", "any"]),
    ],
    "bv": [
        ("(bytevector-append {0} {1})", ["bv", "bv"]), ("(bytevector-copy {0})", ["bv"]), ("(string->utf8 {0})", ["str"]),
        ("(make-bytevector (modulo {0} 70) 65)", ["int"]),
        ("(let ((b (make-bytevector 6 0))) (bytevector-copy! b 1 (bytevector 9 8 7)) b)", []),
        ("(let ((p (open-output-bytevector))) (write-u8 65 p) (write-bytevector {0} p) (get-output-bytevector p))", ["bv"]),
    ],
    "bool": [
        ("(equal? {0} {1})", ["list", "list"]), ("(equal? {0} {0})", ["vec"]), ("(string=? {0} {1})", ["str", "str"]),
        ("(eqv? {0} {1})", ["big", "big"]), ("(< {0} {1})", ["rat", "flo"]), ("(pair? {0})", ["any"]),
    ],
    "proc1": [
        ("(lambda (x) (list x {0}))", ["any"]), ("(let ((n {0})) (lambda (x) (cons n x)))", ["any"]),
        ("(lambda (x) (string-append \"<\" (if (string? x) x \"?\") \">\"))", []),
    ],
    "proc2": [("(lambda (x y) (vector x y {0}))", ["any"])],
    "any": [
        ("{0}", ["int"]), ("{0}", ["big"]), ("{0}", ["str"]), ("{0}", ["list"]), ("{0}", ["vec"]), ("{0}", ["sym"]),
        ("{0}", ["char"]), ("{0}", ["flo"]), ("{0}", ["rat"]), ("{0}", ["bv"]), ("{0}", ["bool"]),
    ],
}

# C-backed library productions (profile "libs")
LIB_PRODS = {
    "list": [
        ("(sort {0} <)", ["intlist"]), ("(sort {0} (lambda (a b) (< a b)))", ["intlist"]), ("(sort {0} string<?)", ["strlist"]),
        ("(vector->list (sort (list->vector {0}) >))", ["intlist"]),
        ("(let ((h (make-hash-table equal?))) (for-each (lambda (k) (hash-table-set! h k (list k))) {0}) (map (lambda (k) (hash-table-ref/default h k #f)) {0}))", ["list"]),
        ("(let ((h (make-hash-table string=?))) (for-each (lambda (k) (hash-table-set! h k (string-length k))) {0}) (list (hash-table-size h) (hash-table-ref/default h \"x\" 'none)))", ["strlist"]),
        ("(let ((h (make-hash-table eqv?))) (do ((i 0 (+ i 1))) ((= i 40)) (hash-table-set! h (* i {0}) i)) (sort (hash-table-values h) <))", ["int"]),
        ("(let ((h (make-hash-table equal?))) (hash-table-update!/default h {0} (lambda (x) (cons 1 x)) '()) (hash-table-update!/default h {0} (lambda (x) (cons 2 x)) '()) (hash-table-ref h {0} (lambda () 'no)))", ["any"]),
        ("(list (bitwise-and {0} {1}) (bitwise-ior {0} {1}) (bitwise-xor {0} {1}) (arithmetic-shift {0} 70) (arithmetic-shift {1} -3) (bit-count {0}))", ["big", "big"]),
        ("(bits->list (abs {0}))", ["int"]),
        ("(let ((t (make-thread (lambda () (list {0} {1}))))) (thread-start! t) (thread-join! t))", ["any", "any"]),
        ("(let ((m (make-mutex)) (acc '())) (let ((ts (map (lambda (i) (make-thread (lambda () (mutex-lock! m) (set! acc (cons (list i {0}) acc)) (mutex-unlock! m)))) '(1 2 3)))) (for-each thread-start! ts) (for-each thread-join! ts) (length acc)))", ["any"]),
        ("(filter pair? {0})", ["list"]), ("(delete-duplicates {0})", ["list"]), ("(fold cons* '() {0} {0})", ["list"]),
        ("(append-map (lambda (x) (list x x)) {0})", ["list"]), ("(partition* {0})", ["intlist"]), ("(list-tabulate 9 (lambda (i) (make-string i #\\a)))", []),
        ("(json-roundtrip* {0})", ["intlist"]),
        ("(list (hash {0}) (hash {1}) (string-hash {2}))", ["list", "big", "str"]),
        ("(u8vector->list (list->u8vector (map (lambda (x) (modulo x 256)) {0})))", ["intlist"]),
    ],
}

HELPERS = r"""
(define (car-or-self x) (if (pair? x) (car x) x))
(define (iota n) (let lp ((i (- n 1)) (acc '())) (if (< i 0) acc (lp (- i 1) (cons i acc)))))
(define (number->string-or-self x) (if (number? x) (number->string x) x))
(define (substring* s a b) (if (>= (string-length s) b) (substring s a b) s))
(define (list-tail* l k) (if (and (list? l) (>= (length l) k)) (list-tail l k) l))
(define (assq* k l) (if (and (list? l) (every-pair? l)) (assq k l) #f))
(define (every-pair? l) (or (null? l) (and (pair? (car l)) (every-pair? (cdr l)))))
(define (member* x l) (if (list? l) (member x l) #f))
(define (bytevector->list* b) (let lp ((i (- (bytevector-length b) 1)) (acc '())) (if (< i 0) acc (lp (- i 1) (cons (bytevector-u8-ref b i) acc)))))
(define (exact-integer-sqrt* n) (call-with-values (lambda () (exact-integer-sqrt (abs n))) (lambda (s r) (+ s r))))
(define (string-join* l) (if (null? l) "" (let lp ((l (cdr l)) (acc (car l))) (if (null? l) acc (lp (cdr l) (string-append acc "," (car l)))))))
(define (call-with-output-string* f) (let ((p (open-output-string))) (f p) (get-output-string p)))
(define (string-split* s) (let lp ((cs (string->list s)) (cur '()) (acc '())) (cond ((null? cs) (reverse (cons (list->string (reverse cur)) acc))) ((char=? (car cs) #\space) (lp (cdr cs) '() (cons (list->string (reverse cur)) acc))) (else (lp (cdr cs) (cons (car cs) cur) acc)))))
(define (char-list* s) (let ((acc '())) (string-for-each (lambda (c) (set! acc (cons (char->integer c) acc))) s) acc))
(define-record-type rec (make-rec a b) rec? (a rec-a) (b rec-b set-rec-b!))
(define case-lambda-test (case-lambda ((a) (list 'one a)) ((a b) (list 'two b a)) ((a . r) (list 'many a r))))
(define the-env-cache #f)
(define (the-env) (or the-env-cache (begin (set! the-env-cache (environment '(scheme base))) the-env-cache)))
"""

LIB_HELPERS = r"""
(define (partition* l) (call-with-values (lambda () (partition even? l)) list))
(define (json-roundtrip* l) (string->json (json->string (list->vector l))))
"""


def merged_prods(libs):
    if not libs:
        return PRODS
    p = {k: list(v) for k, v in PRODS.items()}
    for k, v in LIB_PRODS.items():
        p[k] = p.get(k, []) + v * 2
    return p


def gen(rng, typ, depth, prods):
    """returns a tree (type, template, children)"""
    alts = prods.get(typ, [])
    if depth <= 0 or not alts or (typ in LEAVES and rng.random() < 0.25):
        if typ in LEAVES:
            return (typ, rng.choice(LEAVES[typ]), [])
        # types without leaves: pick a production whose children all have leaves, at depth 0
        t, ch = rng.choice(alts)
        return (typ, t, [gen(rng, c, 0, prods) for c in ch])
    t, ch = rng.choice(alts)
    return (typ, t, [gen(rng, c, depth - 1, prods) for c in ch])


def render(tree):
    typ, t, ch = tree
    if not ch:
        return t
    return t.format(*[render(c) for c in ch])


def size(tree):
    return 1 + sum(size(c) for c in tree[2])


def ops(tree, acc=None):
    """set of templates used (for classification)"""
    if acc is None:
        acc = set()
    if tree[2]:
        acc.add(tree[1])
    for c in tree[2]:
        ops(c, acc)
    return acc


def shrink_candidates(tree):
    """smaller variants: replace a subtree by a leaf of its type, or by one of its same-typed children"""
    typ, t, ch = tree
    if ch and typ in LEAVES:
        yield (typ, LEAVES[typ][0], [])
    for c in ch:
        if c[0] == typ:
            yield c
    for i, c in enumerate(ch):
        for c2 in shrink_candidates(c):
            yield (typ, t, ch[:i] + [c2] + ch[i + 1:])


def to_json(tree):
    return [tree[0], tree[1], [to_json(c) for c in tree[2]]]


def from_json(j):
    return (j[0], j[1], [from_json(c) for c in j[2]])
