"""refscheme -- a definitional interpreter for the R7RS core subset, written in
continuation-passing style with a trampoline.  It is the reference model for C03, C06
and C09 and shares no code or design with chibi's analyzer / VM.

Semantics implemented from the R7RS text:
  * core forms and the derived forms of section 7.3 (let family, named let, do, cond with =>,
    case, and, or, when, unless, quasiquote, let-values, define-values, case-lambda),
    internal defines with letrec* semantics, set!, closures, rest arguments, apply,
    multiple values;
  * call/cc with re-entrant continuations, dynamic-wind with an explicit wind list,
    with-exception-handler / raise / raise-continuable / error with the handler stack of
    section 6.11, guard expanded exactly as in section 7.3, make-parameter / parameterize
    (converter applied once, bindings part of the dynamic environment captured by
    continuations).
Programs that exceed the step budget raise Budget and are discarded by the callers.
"""
import sys

sys.setrecursionlimit(100000)


class Budget(Exception):
    pass


class SchemeError(Exception):
    """an 'it is an error' situation in the reference model: the generated program is outside
    the domain where R7RS defines the outcome; callers discard the case"""


class Sym(object):
    __slots__ = ("name",)
    table = {}

    def __init__(self, name):
        self.name = name

    def __repr__(self):
        return self.name


def S(name):
    s = Sym.table.get(name)
    if s is None:
        s = Sym.table[name] = Sym(name)
    return s


class Pair(object):
    __slots__ = ("car", "cdr")

    def __init__(self, a, d):
        self.car = a
        self.cdr = d


class NilType(object):
    def __repr__(self):
        return "()"


Nil = NilType()


class Unspecified(object):
    def __repr__(self):
        return "#<unspecified>"


Unspec = Unspecified()


class Char(object):
    __slots__ = ("c",)

    def __init__(self, c):
        self.c = c

    def __eq__(self, o):
        return isinstance(o, Char) and o.c == self.c

    def __hash__(self):
        return hash(self.c)


class MString(object):
    """strings are compared by contents with equal?, by identity with eqv?"""
    __slots__ = ("s",)

    def __init__(self, s):
        self.s = s


class Vector(object):
    __slots__ = ("items",)

    def __init__(self, items):
        self.items = items


class Values(object):
    __slots__ = ("vals",)

    def __init__(self, vals):
        self.vals = vals


class ErrorObj(object):
    __slots__ = ("message", "irritants")

    def __init__(self, message, irritants):
        self.message = message
        self.irritants = irritants


class Closure(object):
    __slots__ = ("params", "rest", "body", "env", "name")

    def __init__(self, params, rest, body, env):
        self.params = params
        self.rest = rest
        self.body = body
        self.env = env


class CaseLambda(object):
    __slots__ = ("clauses",)

    def __init__(self, clauses):
        self.clauses = clauses


class Prim(object):
    __slots__ = ("name", "fn", "cps")

    def __init__(self, name, fn, cps=False):
        self.name = name
        self.fn = fn
        self.cps = cps


class ContProc(object):
    __slots__ = ("k",)

    def __init__(self, k):
        self.k = k


class Param(object):
    __slots__ = ("value", "converter")

    def __init__(self, value, converter):
        self.value = value
        self.converter = converter


class Wind(object):
    __slots__ = ("before", "after", "parent", "depth", "outer")

    def __init__(self, before, after, parent, outer):
        self.before = before
        self.after = after
        self.parent = parent
        self.depth = (parent.depth + 1) if parent else 1
        self.outer = outer          # Dyn in effect outside this extent


class Dyn(object):
    """dynamic environment: wind list, handler stack, parameter bindings (all immutable chains)"""
    __slots__ = ("winds", "handlers", "params")

    def __init__(self, winds=None, handlers=None, params=None):
        self.winds = winds
        self.handlers = handlers      # (handler, rest) or None
        self.params = params          # (param, value, rest) or None


class Cont(object):
    __slots__ = ("fn", "dyn")

    def __init__(self, fn, dyn):
        self.fn = fn
        self.dyn = dyn


class Env(object):
    __slots__ = ("vars", "parent")

    def __init__(self, vars, parent):
        self.vars = vars
        self.parent = parent

    def lookup(self, sym):
        e = self
        while e is not None:
            if sym in e.vars:
                return e
            e = e.parent
        raise SchemeError("unbound variable %s" % sym.name)


UNASSIGNED = object()

# ---------------------------------------------------------------------------
# reader (enough for generated programs)


def tokenize(text):
    i, n = 0, len(text)
    while i < n:
        c = text[i]
        if c.isspace():
            i += 1
        elif c == ";":
            while i < n and text[i] != "\n":
                i += 1
        elif c in "()'`":
            yield c
            i += 1
        elif c == ",":
            if text[i:i + 2] == ",@":
                yield ",@"
                i += 2
            else:
                yield ","
                i += 1
        elif c == '"':
            j = i + 1
            out = []
            while text[j] != '"':
                if text[j] == "\\":
                    j += 1
                    out.append({"n": "\n", "t": "\t"}.get(text[j], text[j]))
                else:
                    out.append(text[j])
                j += 1
            yield ("str", "".join(out))
            i = j + 1
        elif text[i:i + 2] == "#(":
            yield "#("
            i += 2
        elif text[i:i + 2] == "#\\":
            j = i + 3
            while j < n and not text[j].isspace() and text[j] not in "()":
                j += 1
            name = text[i + 2:j]
            yield ("char", {"space": " ", "newline": "\n"}.get(name, name))
            i = j
        else:
            j = i
            while j < n and not text[j].isspace() and text[j] not in "()'`,\"":
                j += 1
            yield ("atom", text[i:j])
            i = j


def parse_all(text):
    toks = list(tokenize(text))
    pos = [0]

    def read():
        t = toks[pos[0]]
        pos[0] += 1
        if t == "(":
            items = []
            tail = Nil
            while toks[pos[0]] != ")":
                if toks[pos[0]] == ("atom", "."):
                    pos[0] += 1
                    tail = read()
                else:
                    items.append(read())
            pos[0] += 1
            r = tail
            for x in reversed(items):
                r = Pair(x, r)
            return r
        if t == "#(":
            items = []
            while toks[pos[0]] != ")":
                items.append(read())
            pos[0] += 1
            return Vector(items)
        if t == "'":
            return Pair(S("quote"), Pair(read(), Nil))
        if t == "`":
            return Pair(S("quasiquote"), Pair(read(), Nil))
        if t == ",":
            return Pair(S("unquote"), Pair(read(), Nil))
        if t == ",@":
            return Pair(S("unquote-splicing"), Pair(read(), Nil))
        kind, v = t
        if kind == "str":
            return MString(v)
        if kind == "char":
            return Char(v)
        if v == "#t" or v == "#true":
            return True
        if v == "#f" or v == "#false":
            return False
        try:
            return int(v)
        except ValueError:
            return S(v)

    out = []
    while pos[0] < len(toks):
        out.append(read())
    return out


def to_list(x):
    out = []
    while isinstance(x, Pair):
        out.append(x.car)
        x = x.cdr
    if x is not Nil:
        raise SchemeError("improper list")
    return out


def from_list(items, tail=Nil):
    r = tail
    for x in reversed(items):
        r = Pair(x, r)
    return r


# ---------------------------------------------------------------------------
# printer


def show(x, write=True):
    if x is True:
        return "#t"
    if x is False:
        return "#f"
    if isinstance(x, int):
        return str(x)
    if isinstance(x, Sym):
        return x.name
    if isinstance(x, MString):
        if not write:
            return x.s
        return '"' + x.s.replace("\\", "\\\\").replace('"', '\\"').replace("\n", "\\n") + '"'
    if isinstance(x, Char):
        if not write:
            return x.c
        return "#\\" + {" ": "space", "\n": "newline"}.get(x.c, x.c)
    if x is Nil:
        return "()"
    if isinstance(x, Pair):
        # (quote x) etc. are written in long form, as chibi's writer does (R7RS allows either)
        parts = []
        while isinstance(x, Pair):
            parts.append(show(x.car, write))
            x = x.cdr
        if x is not Nil:
            parts.append(".")
            parts.append(show(x, write))
        return "(" + " ".join(parts) + ")"
    if isinstance(x, Vector):
        return "#(" + " ".join(show(i, write) for i in x.items) + ")"
    if isinstance(x, ErrorObj):
        return "#<error %s>" % show(x.message, write)
    if x is Unspec:
        raise SchemeError("unspecified value printed")
    if isinstance(x, (Closure, Prim, ContProc, Param, CaseLambda)):
        raise SchemeError("procedure printed")
    raise SchemeError("cannot print %r" % (x,))


# ---------------------------------------------------------------------------
# equivalence


def eqv(a, b):
    if isinstance(a, bool) or isinstance(b, bool):
        return a is b
    if isinstance(a, int) and isinstance(b, int):
        return a == b
    if isinstance(a, Char) and isinstance(b, Char):
        return a.c == b.c
    return a is b


def equal(a, b):
    if eqv(a, b):
        return True
    if isinstance(a, Pair) and isinstance(b, Pair):
        while isinstance(a, Pair) and isinstance(b, Pair):
            if not equal(a.car, b.car):
                return False
            a, b = a.cdr, b.cdr
        return equal(a, b)
    if isinstance(a, MString) and isinstance(b, MString):
        return a.s == b.s
    if isinstance(a, Vector) and isinstance(b, Vector):
        return len(a.items) == len(b.items) and all(equal(x, y) for x, y in zip(a.items, b.items))
    return False


# ---------------------------------------------------------------------------
# the machine


class Machine(object):
    def __init__(self, budget=200000):
        self.budget = budget
        self.steps = 0
        self.out = []
        self.genv = Env({}, None)
        self.install()

    # -- trampoline -------------------------------------------------------
    def run(self, bounce):
        while bounce is not None:
            self.steps += 1
            if self.steps > self.budget:
                raise Budget()
            f, args = bounce
            bounce = f(*args)

    def ret(self, k, v):
        return (k.fn, (v,))

    # -- evaluation ---------------------------------------------------------
    def ev(self, x, env, k):
        if isinstance(x, Sym):
            e = env.lookup(x)
            v = e.vars[x]
            if v is UNASSIGNED:
                raise SchemeError("variable used before initialisation: %s" % x.name)
            return (k.fn, (v,))
        if not isinstance(x, Pair):
            if isinstance(x, (MString, Vector)) or x is Nil:
                if x is Nil:
                    raise SchemeError("() evaluated")
            return (k.fn, (x,))
        head = x.car
        if isinstance(head, Sym):
            # special forms are looked up by name unless shadowed by a variable binding
            sf = SPECIAL.get(head.name)
            if sf is not None and not self.bound_as_variable(head, env):
                return sf(self, x, env, k)
        # application: evaluate operator and operands left to right (programs are order-insensitive)
        items = to_list(x)
        return self.ev_seq_values(items, env, k.dyn, [], lambda vals: self.apply(vals[0], vals[1:], k))

    def bound_as_variable(self, sym, env):
        e = env
        while e is not None:
            if sym in e.vars:
                return e is not self.genv or sym.name not in SPECIAL
            e = e.parent
        return False

    def ev_seq_values(self, items, env, dyn, acc, done):
        if not items:
            return done(acc)
        return self.ev(items[0], env, Cont(lambda v: self.ev_seq_values(items[1:], env, dyn, acc + [self.single(v)], done), dyn))

    def single(self, v):
        if isinstance(v, Values):
            if len(v.vals) == 1:
                return v.vals[0]
            raise SchemeError("multiple values where one is expected")
        return v

    def ev_body(self, forms, env, k):
        """body with internal defines (letrec* semantics)"""
        defs = []
        i = 0
        forms = list(forms)
        # scan leading definitions (begin with defines is not generated)
        while i < len(forms) and isinstance(forms[i], Pair) and isinstance(forms[i].car, Sym) and forms[i].car.name in ("define", "define-values") \
                and not self.bound_as_variable(forms[i].car, env):
            defs.append(forms[i])
            i += 1
        rest = forms[i:]
        if not rest:
            raise SchemeError("empty body")
        if not defs:
            return self.ev_begin(rest, env, k)
        names = []
        for d in defs:
            if d.car.name == "define":
                target = d.cdr.car
                names.append(target.car if isinstance(target, Pair) else target)
            else:
                f = d.cdr.car
                while isinstance(f, Pair):
                    names.append(f.car)
                    f = f.cdr
                if f is not Nil:
                    names.append(f)
        new = Env(dict((n, UNASSIGNED) for n in names), env)
        return self.ev_begin(defs + rest, new, k)

    def ev_begin(self, forms, env, k):
        if len(forms) == 1:
            return self.ev(forms[0], env, k)
        return self.ev(forms[0], env, Cont(lambda v: self.ev_begin(forms[1:], env, k), k.dyn))

    # -- application --------------------------------------------------------
    def apply(self, f, args, k):
        if isinstance(f, Prim):
            if f.cps:
                return f.fn(self, args, k)
            return (k.fn, (f.fn(*args),))
        if isinstance(f, Closure):
            return self.apply_closure(f, args, k)
        if isinstance(f, CaseLambda):
            for c in f.clauses:
                if len(args) == len(c.params) or (c.rest is not None and len(args) >= len(c.params)):
                    return self.apply_closure(c, args, k)
            raise SchemeError("case-lambda: no matching clause")
        if isinstance(f, ContProc):
            return self.throw(k.dyn, f.k, args[0] if len(args) == 1 else Values(list(args)))
        if isinstance(f, Param):
            if args:
                raise SchemeError("parameter called with arguments")
            p = k.dyn.params
            while p is not None:
                if p[0] is f:
                    return (k.fn, (p[1],))
                p = p[2]
            return (k.fn, (f.value,))
        raise SchemeError("application of a non-procedure")

    def apply_closure(self, f, args, k):
        n = len(f.params)
        if len(args) < n or (f.rest is None and len(args) > n):
            raise SchemeError("wrong number of arguments")
        vars = dict(zip(f.params, args[:n]))
        if f.rest is not None:
            vars[f.rest] = from_list(list(args[n:]))
        return self.ev_body(f.body, Env(vars, f.env), k)

    # -- continuations and winds ----------------------------------------------
    def throw(self, cur_dyn, target, value):
        """travel from cur_dyn.winds to target.dyn.winds running after/before thunks, then deliver"""
        a = cur_dyn.winds
        b = target.dyn.winds
        ups = []
        while (a.depth if a else 0) > (b.depth if b else 0):
            ups.append(a)
            a = a.parent
        downs = []
        while (b.depth if b else 0) > (a.depth if a else 0):
            downs.append(b)
            b = b.parent
        while a is not b:
            ups.append(a)
            a = a.parent
            downs.append(b)
            b = b.parent
        downs.reverse()

        def run_ups(i):
            if i == len(ups):
                return run_downs(0)
            w = ups[i]
            return self.apply(w.after, [], Cont(lambda v: run_ups(i + 1), w.outer))

        def run_downs(i):
            if i == len(downs):
                return (target.fn, (value,))
            w = downs[i]
            return self.apply(w.before, [], Cont(lambda v: run_downs(i + 1), w.outer))

        return run_ups(0)

    # -- exceptions -----------------------------------------------------------
    def do_raise(self, obj, k, continuable):
        h = k.dyn.handlers
        if h is None:
            raise Uncaught(obj)
        handler, outer = h
        hdyn = Dyn(k.dyn.winds, outer, k.dyn.params)
        if continuable:
            return self.apply(handler, [obj], Cont(k.fn, hdyn) if False else Cont(lambda v: (k.fn, (v,)), hdyn))

        def after(v):
            # handler returned from a non-continuable raise: secondary exception in the handler's context
            return self.do_raise(ErrorObj(MString("exception handler returned"), Nil), Cont(k.fn, hdyn), False)
        return self.apply(handler, [obj], Cont(after, hdyn))

    # -- primitives -----------------------------------------------------------
    def install(self):
        g = self.genv.vars

        def prim(name, fn, cps=False):
            g[S(name)] = Prim(name, fn, cps)

        def num(x):
            if isinstance(x, bool) or not isinstance(x, int):
                raise SchemeError("not a number")
            return x

        def chain(rel):
            def f(*xs):
                for x in xs:
                    num(x)
                return all(rel(xs[i], xs[i + 1]) for i in range(len(xs) - 1))
            return f

        def add(*xs):
            return sum(num(x) for x in xs)

        def mul(*xs):
            r = 1
            for x in xs:
                r *= num(x)
            return r

        def sub(x, *ys):
            if not ys:
                return -num(x)
            r = num(x)
            for y in ys:
                r -= num(y)
            return r

        def quotient(a, b):
            num(a), num(b)
            if b == 0:
                raise SchemeError("division by zero")
            q = abs(a) // abs(b)
            return q if (a < 0) == (b < 0) else -q

        def remainder(a, b):
            return a - b * quotient(a, b)

        def modulo(a, b):
            num(a), num(b)
            if b == 0:
                raise SchemeError("division by zero")
            return a % b

        prim("+", add)
        prim("*", mul)
        prim("-", sub)
        prim("quotient", quotient)
        prim("remainder", remainder)
        prim("modulo", modulo)
        prim("=", chain(lambda a, b: a == b))
        prim("<", chain(lambda a, b: a < b))
        prim(">", chain(lambda a, b: a > b))
        prim("<=", chain(lambda a, b: a <= b))
        prim(">=", chain(lambda a, b: a >= b))
        prim("abs", lambda x: abs(num(x)))
        prim("min", lambda *xs: min(num(x) for x in xs))
        prim("max", lambda *xs: max(num(x) for x in xs))
        prim("zero?", lambda x: num(x) == 0)
        prim("positive?", lambda x: num(x) > 0)
        prim("negative?", lambda x: num(x) < 0)
        prim("even?", lambda x: num(x) % 2 == 0)
        prim("odd?", lambda x: num(x) % 2 == 1)
        prim("not", lambda x: x is False)
        prim("eq?", lambda a, b: eqv(a, b))
        prim("eqv?", lambda a, b: eqv(a, b))
        prim("equal?", lambda a, b: equal(a, b))
        prim("cons", lambda a, d: Pair(a, d))

        def car(p):
            if not isinstance(p, Pair):
                raise SchemeError("car of non-pair")
            return p.car

        def cdr(p):
            if not isinstance(p, Pair):
                raise SchemeError("cdr of non-pair")
            return p.cdr

        def set_car(p, v):
            car(p)
            p.car = v
            return Unspec

        def set_cdr(p, v):
            car(p)
            p.cdr = v
            return Unspec

        prim("car", car)
        prim("cdr", cdr)
        prim("cadr", lambda p: car(cdr(p)))
        prim("cddr", lambda p: cdr(cdr(p)))
        prim("caar", lambda p: car(car(p)))
        prim("set-car!", set_car)
        prim("set-cdr!", set_cdr)
        prim("list", lambda *xs: from_list(list(xs)))
        prim("length", lambda l: len(to_list(l)))
        prim("reverse", lambda l: from_list(list(reversed(to_list(l)))))

        def append(*ls):
            if not ls:
                return Nil
            r = ls[-1]
            for l in reversed(ls[:-1]):
                r = from_list(to_list(l), r)
            return r

        prim("append", append)

        def list_ref(l, i):
            items = to_list(l)
            if not (0 <= num(i) < len(items)):
                raise SchemeError("list-ref range")
            return items[i]

        def list_tail(l, i):
            for _ in range(num(i)):
                l = cdr(l)
            return l

        prim("list-ref", list_ref)
        prim("list-tail", list_tail)

        def mem(eq):
            def f(x, l):
                while isinstance(l, Pair):
                    if eq(x, l.car):
                        return l
                    l = l.cdr
                return False
            return f

        def ass(eq):
            def f(x, l):
                while isinstance(l, Pair):
                    if not isinstance(l.car, Pair):
                        raise SchemeError("assq: not an alist")
                    if eq(x, l.car.car):
                        return l.car
                    l = l.cdr
                return False
            return f

        prim("memq", mem(eqv))
        prim("memv", mem(eqv))
        prim("member", mem(equal))
        prim("assq", ass(eqv))
        prim("assv", ass(eqv))
        prim("assoc", ass(equal))
        prim("null?", lambda x: x is Nil)
        prim("pair?", lambda x: isinstance(x, Pair))

        def listp(x):
            seen = 0
            while isinstance(x, Pair):
                x = x.cdr
                seen += 1
                if seen > 100000:
                    return False
            return x is Nil

        prim("list?", listp)
        prim("symbol?", lambda x: isinstance(x, Sym))
        prim("boolean?", lambda x: isinstance(x, bool))
        prim("number?", lambda x: isinstance(x, int) and not isinstance(x, bool))
        prim("integer?", lambda x: isinstance(x, int) and not isinstance(x, bool))
        prim("string?", lambda x: isinstance(x, MString))
        prim("vector?", lambda x: isinstance(x, Vector))
        prim("procedure?", lambda x: isinstance(x, (Closure, Prim, ContProc, Param, CaseLambda)))
        prim("vector", lambda *xs: Vector(list(xs)))
        prim("make-vector", lambda n, fill=0: Vector([fill] * num(n)))

        def vref(v, i):
            if not isinstance(v, Vector) or not (0 <= num(i) < len(v.items)):
                raise SchemeError("vector-ref")
            return v.items[i]

        def vset(v, i, x):
            vref(v, i)
            v.items[i] = x
            return Unspec

        prim("vector-ref", vref)
        prim("vector-set!", vset)
        prim("vector-length", lambda v: len(v.items))
        prim("vector->list", lambda v: from_list(list(v.items)))
        prim("list->vector", lambda l: Vector(to_list(l)))
        prim("string-append", lambda *xs: MString("".join(x.s for x in xs)))
        prim("string-length", lambda s: len(s.s))
        prim("number->string", lambda n: MString(str(num(n))))
        prim("symbol->string", lambda s: MString(s.name))
        prim("string->symbol", lambda s: S(s.s))
        prim("string=?", lambda a, b: a.s == b.s)

        def display(x):
            self.out.append(show(x, False))
            return Unspec

        def write(x):
            self.out.append(show(x, True))
            return Unspec

        def newline():
            self.out.append("\n")
            return Unspec

        prim("display", display)
        prim("write", write)
        prim("newline", newline)
        prim("values", lambda m, args, k: (k.fn, (args[0] if len(args) == 1 else Values(list(args)),)), True)

        def call_with_values(m, args, k):
            producer, consumer = args

            def got(v):
                vals = v.vals if isinstance(v, Values) else [v]
                return m.apply(consumer, list(vals), k)
            return m.apply(producer, [], Cont(got, k.dyn))

        prim("call-with-values", call_with_values, True)

        def apply_prim(m, args, k):
            f = args[0]
            rest = list(args[1:-1]) + to_list(args[-1])
            return m.apply(f, rest, k)

        prim("apply", apply_prim, True)

        def callcc(m, args, k):
            return m.apply(args[0], [ContProc(k)], k)

        prim("call/cc", callcc, True)
        prim("call-with-current-continuation", callcc, True)

        def dynamic_wind(m, args, k):
            before, thunk, after = args

            def entered(v):
                w = Wind(before, after, k.dyn.winds, k.dyn)
                inner = Dyn(w, k.dyn.handlers, k.dyn.params)

                def body_done(result):
                    return m.apply(after, [], Cont(lambda v2: (k.fn, (result,)), k.dyn))
                return m.apply(thunk, [], Cont(body_done, inner))
            return m.apply(before, [], Cont(entered, k.dyn))

        prim("dynamic-wind", dynamic_wind, True)

        def with_exception_handler(m, args, k):
            handler, thunk = args
            inner = Dyn(k.dyn.winds, (handler, k.dyn.handlers), k.dyn.params)
            return m.apply(thunk, [], Cont(k.fn, inner) if False else Cont(lambda v: (k.fn, (v,)), inner))

        prim("with-exception-handler", with_exception_handler, True)
        prim("raise", lambda m, args, k: m.do_raise(args[0], k, False), True)
        prim("raise-continuable", lambda m, args, k: m.do_raise(args[0], k, True), True)
        prim("error", lambda m, args, k: m.do_raise(ErrorObj(args[0], from_list(list(args[1:]))), k, False), True)
        prim("error-object?", lambda x: isinstance(x, ErrorObj))
        prim("error-object-message", lambda e: e.message)
        prim("error-object-irritants", lambda e: e.irritants)

        def make_parameter(m, args, k):
            value = args[0]
            conv = args[1] if len(args) > 1 else None
            if conv is None:
                return (k.fn, (Param(value, None),))
            return m.apply(conv, [value], Cont(lambda v: (k.fn, (Param(v, conv),)), k.dyn))

        prim("make-parameter", make_parameter, True)

        def map_prim(m, args, k):
            f = args[0]
            lists = [to_list(l) for l in args[1:]]
            n = min(len(l) for l in lists)

            def step(i, acc):
                if i == n:
                    return (k.fn, (from_list(acc),))
                return m.apply(f, [l[i] for l in lists], Cont(lambda v: step(i + 1, acc + [m.single(v)]), k.dyn))
            return step(0, [])

        def for_each_prim(m, args, k):
            f = args[0]
            lists = [to_list(l) for l in args[1:]]
            n = min(len(l) for l in lists)

            def step(i):
                if i == n:
                    return (k.fn, (Unspec,))
                return m.apply(f, [l[i] for l in lists], Cont(lambda v: step(i + 1), k.dyn))
            return step(0)

        prim("map", map_prim, True)
        prim("for-each", for_each_prim, True)

        def vector_map(m, args, k):
            f, v = args

            def step(i, acc):
                if i == len(v.items):
                    return (k.fn, (Vector(acc),))
                return m.apply(f, [v.items[i]], Cont(lambda x: step(i + 1, acc + [m.single(x)]), k.dyn))
            return step(0, [])

        prim("vector-map", vector_map, True)

    # -- program ----------------------------------------------------------------
    def run_program(self, text):
        """evaluates all top-level forms; returns (outcome, output) where outcome is
        ('value', written-value-of-last-form or None) or ('raised', written-payload)"""
        forms = parse_all(text)
        last = [Unspec]
        top = Dyn()
        try:
            for f in forms:
                if isinstance(f, Pair) and isinstance(f.car, Sym) and f.car.name in ("define", "define-values"):
                    self.toplevel_define(f, top)
                    last[0] = Unspec
                else:
                    def done(v):
                        last[0] = v
                        return None
                    self.run(self.ev(f, self.genv, Cont(done, top)))
        except Uncaught as u:
            return ("raised", payload_text(u.obj)), "".join(self.out)
        v = last[0]
        if isinstance(v, Values):
            txt = " ".join(show(x) for x in v.vals)
        elif v is Unspec:
            txt = None
        else:
            txt = show(v)
        return ("value", txt), "".join(self.out)

    def toplevel_define(self, f, top):
        if f.car.name == "define":
            target = f.cdr.car
            if isinstance(target, Pair):
                name = target.car
                lam = Pair(S("lambda"), Pair(target.cdr, f.cdr.cdr))
                expr = lam
            else:
                name = target
                expr = f.cdr.cdr.car

            def done(v):
                self.genv.vars[name] = self.single(v)
                return None
            self.run(self.ev(expr, self.genv, Cont(done, top)))
        else:
            formals = f.cdr.car
            expr = f.cdr.cdr.car

            def done(v):
                vals = v.vals if isinstance(v, Values) else [v]
                bind_formals(formals, list(vals), self.genv.vars)
                return None
            self.run(self.ev(expr, self.genv, Cont(done, top)))


class Uncaught(Exception):
    def __init__(self, obj):
        Exception.__init__(self)
        self.obj = obj


def payload_text(obj):
    if isinstance(obj, ErrorObj):
        return "error:" + show(obj.message, False) + ":" + show(obj.irritants, True)
    return show(obj, True)


def bind_formals(formals, vals, vars):
    i = 0
    while isinstance(formals, Pair):
        if i >= len(vals):
            raise SchemeError("too few values")
        vars[formals.car] = vals[i]
        i += 1
        formals = formals.cdr
    if formals is Nil:
        if i != len(vals):
            raise SchemeError("too many values")
    else:
        vars[formals] = from_list(vals[i:])


# ---------------------------------------------------------------------------
# special forms

def sf_quote(m, x, env, k):
    return (k.fn, (x.cdr.car,))


def sf_if(m, x, env, k):
    test = x.cdr.car
    conseq = x.cdr.cdr.car
    alt = x.cdr.cdr.cdr

    def decided(v):
        if m.single(v) is not False:
            return m.ev(conseq, env, k)
        if alt is Nil:
            return (k.fn, (Unspec,))
        return m.ev(alt.car, env, k)
    return m.ev(test, env, Cont(decided, k.dyn))


def parse_formals(formals):
    params = []
    while isinstance(formals, Pair):
        params.append(formals.car)
        formals = formals.cdr
    rest = None if formals is Nil else formals
    return params, rest


def sf_lambda(m, x, env, k):
    params, rest = parse_formals(x.cdr.car)
    return (k.fn, (Closure(params, rest, to_list(x.cdr.cdr), env),))


def sf_case_lambda(m, x, env, k):
    clauses = []
    for c in to_list(x.cdr):
        params, rest = parse_formals(c.car)
        clauses.append(Closure(params, rest, to_list(c.cdr), env))
    return (k.fn, (CaseLambda(clauses),))


def sf_define(m, x, env, k):
    target = x.cdr.car
    if isinstance(target, Pair):
        name = target.car
        expr = Pair(S("lambda"), Pair(target.cdr, x.cdr.cdr))
    else:
        name = target
        expr = x.cdr.cdr.car
    if name not in env.vars:
        raise SchemeError("define in expression context")

    def done(v):
        env.vars[name] = m.single(v)
        return (k.fn, (Unspec,))
    return m.ev(expr, env, Cont(done, k.dyn))


def sf_define_values(m, x, env, k):
    formals = x.cdr.car

    def done(v):
        vals = v.vals if isinstance(v, Values) else [v]
        bind_formals(formals, list(vals), env.vars)
        return (k.fn, (Unspec,))
    return m.ev(x.cdr.cdr.car, env, Cont(done, k.dyn))


def sf_set(m, x, env, k):
    name = x.cdr.car
    e = env.lookup(name)

    def done(v):
        e.vars[name] = m.single(v)
        return (k.fn, (Unspec,))
    return m.ev(x.cdr.cdr.car, env, Cont(done, k.dyn))


def sf_begin(m, x, env, k):
    forms = to_list(x.cdr)
    if not forms:
        return (k.fn, (Unspec,))
    return m.ev_begin(forms, env, k)


def sf_let(m, x, env, k):
    if isinstance(x.cdr.car, Sym):
        # named let
        name = x.cdr.car
        bindings = to_list(x.cdr.cdr.car)
        body = x.cdr.cdr.cdr
        names = [b.car for b in bindings]
        inits = [b.cdr.car for b in bindings]
        loop_env = Env({name: UNASSIGNED}, env)
        loop_env.vars[name] = Closure(names, None, to_list(body), loop_env)
        return m.ev_seq_values(inits, env, k.dyn, [], lambda vals: m.apply(loop_env.vars[name], vals, k))
    bindings = to_list(x.cdr.car)
    names = [b.car for b in bindings]
    inits = [b.cdr.car for b in bindings]
    body = to_list(x.cdr.cdr)
    return m.ev_seq_values(inits, env, k.dyn, [], lambda vals: m.ev_body(body, Env(dict(zip(names, vals)), env), k))


def sf_let_star(m, x, env, k):
    bindings = to_list(x.cdr.car)
    body = to_list(x.cdr.cdr)

    def step(i, e):
        if i == len(bindings):
            return m.ev_body(body, Env({}, e), k)
        b = bindings[i]
        return m.ev(b.cdr.car, e, Cont(lambda v: step(i + 1, Env({b.car: m.single(v)}, e)), k.dyn))
    return step(0, env)


def sf_letrec(m, x, env, k):
    bindings = to_list(x.cdr.car)
    body = to_list(x.cdr.cdr)
    new = Env(dict((b.car, UNASSIGNED) for b in bindings), env)

    def step(i):
        if i == len(bindings):
            return m.ev_body(body, new, k)
        b = bindings[i]

        def done(v):
            new.vars[b.car] = m.single(v)
            return step(i + 1)
        return m.ev(b.cdr.car, new, Cont(done, k.dyn))
    return step(0)


def sf_let_values(star):
    def f(m, x, env, k):
        bindings = to_list(x.cdr.car)
        body = to_list(x.cdr.cdr)
        new_vars = {}

        def step(i, e):
            if i == len(bindings):
                return m.ev_body(body, Env(new_vars, env) if not star else Env({}, e), k)
            b = bindings[i]

            def done(v):
                vals = v.vals if isinstance(v, Values) else [v]
                if star:
                    vars = {}
                    bind_formals(b.car, list(vals), vars)
                    return step(i + 1, Env(vars, e))
                bind_formals(b.car, list(vals), new_vars)
                return step(i + 1, e)
            return m.ev(b.cdr.car, e if star else env, Cont(done, k.dyn))
        return step(0, env)
    return f


def sf_do(m, x, env, k):
    specs = to_list(x.cdr.car)
    test_clause = to_list(x.cdr.cdr.car)
    commands = to_list(x.cdr.cdr.cdr)
    names = [s.car for s in specs]
    inits = [s.cdr.car for s in specs]
    steps = [(s.cdr.cdr.car if s.cdr.cdr is not Nil else None) for s in specs]

    def loop(vals):
        e = Env(dict(zip(names, vals)), env)

        def tested(t):
            if m.single(t) is not False:
                if len(test_clause) == 1:
                    return (k.fn, (Unspec,))
                return m.ev_begin(test_clause[1:], e, k)

            def after_commands(_):
                exprs = [st if st is not None else n for st, n in zip(steps, names)]
                return m.ev_seq_values(exprs, e, k.dyn, [], loop)
            if commands:
                return m.ev_begin(commands, e, Cont(after_commands, k.dyn))
            return after_commands(None)
        return m.ev(test_clause[0], e, Cont(tested, k.dyn))
    return m.ev_seq_values(inits, env, k.dyn, [], loop)


def sf_cond(m, x, env, k):
    clauses = to_list(x.cdr)

    def step(i):
        if i == len(clauses):
            return (k.fn, (Unspec,))
        c = clauses[i]
        if isinstance(c.car, Sym) and c.car.name == "else" and not m.bound_as_variable(c.car, env):
            return m.ev_begin(to_list(c.cdr), env, k)

        def tested(t):
            t = m.single(t)
            if t is False:
                return step(i + 1)
            if c.cdr is Nil:
                return (k.fn, (t,))
            if isinstance(c.cdr.car, Sym) and c.cdr.car.name == "=>" and not m.bound_as_variable(c.cdr.car, env):
                return m.ev(c.cdr.cdr.car, env, Cont(lambda f: m.apply(m.single(f), [t], k), k.dyn))
            return m.ev_begin(to_list(c.cdr), env, k)
        return m.ev(c.car, env, Cont(tested, k.dyn))
    return step(0)


def sf_case(m, x, env, k):
    clauses = to_list(x.cdr.cdr)

    def keyed(key):
        key = m.single(key)
        for c in clauses:
            if isinstance(c.car, Sym) and c.car.name == "else":
                hit = True
            else:
                hit = any(eqv(key, d) for d in to_list(c.car))
            if hit:
                if isinstance(c.cdr.car, Sym) and c.cdr.car.name == "=>":
                    return m.ev(c.cdr.cdr.car, env, Cont(lambda f: m.apply(m.single(f), [key], k), k.dyn))
                return m.ev_begin(to_list(c.cdr), env, k)
        return (k.fn, (Unspec,))
    return m.ev(x.cdr.car, env, Cont(keyed, k.dyn))


def sf_and(m, x, env, k):
    forms = to_list(x.cdr)
    if not forms:
        return (k.fn, (True,))

    def step(i):
        if i == len(forms) - 1:
            return m.ev(forms[i], env, k)
        return m.ev(forms[i], env, Cont(lambda v: (k.fn, (False,)) if m.single(v) is False else step(i + 1), k.dyn))
    return step(0)


def sf_or(m, x, env, k):
    forms = to_list(x.cdr)
    if not forms:
        return (k.fn, (False,))

    def step(i):
        if i == len(forms) - 1:
            return m.ev(forms[i], env, k)
        return m.ev(forms[i], env, Cont(lambda v: (k.fn, (m.single(v),)) if m.single(v) is not False else step(i + 1), k.dyn))
    return step(0)


def sf_when(m, x, env, k):
    def tested(t):
        if m.single(t) is False:
            return (k.fn, (Unspec,))
        return m.ev_begin(to_list(x.cdr.cdr), env, k)
    return m.ev(x.cdr.car, env, Cont(tested, k.dyn))


def sf_unless(m, x, env, k):
    def tested(t):
        if m.single(t) is not False:
            return (k.fn, (Unspec,))
        return m.ev_begin(to_list(x.cdr.cdr), env, k)
    return m.ev(x.cdr.car, env, Cont(tested, k.dyn))


def sf_quasiquote(m, x, env, k):
    def qq(t, depth, kk):
        if isinstance(t, Pair):
            if isinstance(t.car, Sym) and t.car.name == "unquote" and isinstance(t.cdr, Pair):
                if depth == 1:
                    return m.ev(t.cdr.car, env, Cont(lambda v: kk(m.single(v)), k.dyn))
                return qq(t.cdr.car, depth - 1, lambda v: kk(Pair(t.car, Pair(v, Nil))))
            if isinstance(t.car, Sym) and t.car.name == "unquote-splicing" and isinstance(t.cdr, Pair) and depth > 1:
                # R7RS 4.2.8: unquote-splicing decreases the nesting level like unquote
                return qq(t.cdr.car, depth - 1, lambda v: kk(Pair(t.car, Pair(v, Nil))))
            if isinstance(t.car, Sym) and t.car.name == "quasiquote" and isinstance(t.cdr, Pair):
                return qq(t.cdr.car, depth + 1, lambda v: kk(Pair(t.car, Pair(v, Nil))))
            if isinstance(t.car, Pair) and isinstance(t.car.car, Sym) and t.car.car.name == "unquote-splicing" and depth == 1:
                def spliced(v):
                    items = to_list(m.single(v))
                    return qq(t.cdr, depth, lambda rest: kk(from_list(items, rest)))
                return m.ev(t.car.cdr.car, env, Cont(spliced, k.dyn))
            return qq(t.car, depth, lambda a: qq(t.cdr, depth, lambda d: kk(Pair(a, d))))
        if isinstance(t, Vector):
            return qq(from_list(t.items), depth, lambda l: kk(Vector(to_list(l))))
        return kk(t)
    return qq(x.cdr.car, 1, lambda v: (k.fn, (v,)))


def sf_parameterize(m, x, env, k):
    bindings = to_list(x.cdr.car)
    body = to_list(x.cdr.cdr)
    exprs = []
    for b in bindings:
        exprs += [b.car, b.cdr.car]

    def got(vals):
        pairs = [(vals[i], vals[i + 1]) for i in range(0, len(vals), 2)]

        def convert(i, acc):
            if i == len(pairs):
                params = k.dyn.params
                for p, v in acc:
                    params = (p, v, params)
                inner = Dyn(k.dyn.winds, k.dyn.handlers, params)
                return m.ev_body(body, Env({}, env), Cont(lambda v: (k.fn, (v,)), inner))
            p, v = pairs[i]
            if not isinstance(p, Param):
                raise SchemeError("parameterize: not a parameter")
            if p.converter is None:
                return convert(i + 1, acc + [(p, v)])
            return m.apply(p.converter, [v], Cont(lambda cv: convert(i + 1, acc + [(p, m.single(cv))]), k.dyn))
        return convert(0, [])
    return m.ev_seq_values(exprs, env, k.dyn, [], got)


_gensym = [0]


def gensym(prefix):
    _gensym[0] += 1
    return Sym("%s#%d" % (prefix, _gensym[0]))     # uninterned: cannot clash with program identifiers


def sf_guard(m, x, env, k):
    """R7RS 7.3 expansion of guard"""
    spec = x.cdr.car
    var = spec.car
    clauses = spec.cdr
    body = x.cdr.cdr
    guard_k, condition, handler_k, args = gensym("guard-k"), gensym("condition"), gensym("handler-k"), gensym("args")
    has_else = False
    for c in to_list(clauses):
        if isinstance(c.car, Sym) and c.car.name == "else":
            has_else = True
    reraise = L(handler_k, L(S("lambda"), Nil, L(S("raise-continuable"), condition)))
    cl = to_list(clauses)
    if not has_else:
        cl = cl + [L(S("else"), reraise)]
    cond_expr = Pair(S("cond"), from_list(cl))
    expansion = L(L(S("call/cc"),
                    L(S("lambda"), L(guard_k),
                      L(S("with-exception-handler"),
                        L(S("lambda"), L(condition),
                          L(L(S("call/cc"),
                              L(S("lambda"), L(handler_k),
                                L(guard_k, L(S("lambda"), Nil, L(S("let"), L(L(var, condition)), cond_expr))))))),
                        L(S("lambda"), Nil,
                          L(S("call-with-values"),
                            Pair(S("lambda"), Pair(Nil, body)),
                            L(S("lambda"), args, L(guard_k, L(S("lambda"), Nil, L(S("apply"), S("values"), args))))))))))
    return m.ev(expansion, env, k)


def L(*items):
    return from_list(list(items))


SPECIAL = {
    "quote": sf_quote, "if": sf_if, "lambda": sf_lambda, "define": sf_define, "set!": sf_set, "begin": sf_begin,
    "let": sf_let, "let*": sf_let_star, "letrec": sf_letrec, "letrec*": sf_letrec, "do": sf_do, "cond": sf_cond,
    "case": sf_case, "and": sf_and, "or": sf_or, "when": sf_when, "unless": sf_unless, "quasiquote": sf_quasiquote,
    "let-values": sf_let_values(False), "let*-values": sf_let_values(True), "define-values": sf_define_values,
    "parameterize": sf_parameterize, "guard": sf_guard, "case-lambda": sf_case_lambda,
}


def run(text, budget=200000):
    """returns ((kind, text), output); raises Budget or SchemeError for programs outside the model"""
    m = Machine(budget)
    return m.run_program(text)


if __name__ == "__main__":
    print(run(sys.stdin.read()))
