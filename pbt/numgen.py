"""Operand generators shared by C04 / C09 / C15 / C17: the boundary lattice and seeded random integers."""
import sys
from fractions import Fraction

if hasattr(sys, "set_int_max_str_digits"):
    sys.set_int_max_str_digits(0)

FIX_MAX = 2 ** 62 - 1
FIX_MIN = -2 ** 62


def lattice(kmax=400, dense=False):
    L = {0, 1, -1, 2, -2, 3, -3, 7, 10, -10, 255, 256}
    for d in (-2, -1, 0, 1, 2):
        L.add(FIX_MAX + d)
        L.add(FIX_MIN + d)
        L.add(-FIX_MAX + d)
    for k in range(1, kmax + 1):
        near_word = (k % 64) in (63, 0, 1) or k in (31, 32, 33, 61, 62)
        if near_word or k % 8 == 0 or dense:
            for d in (-1, 0, 1):
                L.add(2 ** k + d)
                L.add(-(2 ** k + d))
    W = 2 ** 64
    ones = W - 1
    # interior word patterns: all-ones / all-zero words inside
    pats = [
        ones * W,                       # [0, ones]
        ones * W * W + ones,            # [ones, 0, ones]
        W * W,                          # [0, 0, 1]
        W * W + 1,
        ones * W * W,                   # [0, 0, ones]
        (W * W * W - 1) - ones * W,     # [ones, 0, ones] again via subtraction
        W ** 4 - W ** 2,                # [0,0,ones,ones]
        (W ** 3 - 1) * 3,
        (1 << 127) + (1 << 63),
        (1 << 128) - (1 << 64) + 1,
        ones, ones - 1, ones + 2,
        (W ** 5 - 1),
        0x5555555555555555555555555555555555555555,
        0xAAAAAAAAAAAAAAAAAAAAAAAAAAAAAAAAAAAAAAAA,
    ]
    for p in pats:
        L.add(p)
        L.add(-p)
    return sorted(L)


def rand_int(rng, maxbits=4000):
    """log-uniform bit length, biased towards sparse / dense words."""
    import math
    bits = int(math.exp(rng.uniform(0, math.log(maxbits)))) + rng.randrange(2)
    mode = rng.randrange(5)
    if mode == 0:      # dense ones with a few holes
        n = (1 << bits) - 1
        for _ in range(rng.randrange(4)):
            n &= ~(1 << rng.randrange(max(bits, 1)))
    elif mode == 1:    # sparse
        n = 1 << max(bits - 1, 0)
        for _ in range(rng.randrange(4)):
            n |= 1 << rng.randrange(max(bits, 1))
    elif mode == 2:    # near a word boundary
        k = 64 * rng.randrange(1, max(2, bits // 64 + 1))
        n = (1 << k) + rng.choice((-2, -1, 0, 1, 2))
    else:
        n = rng.getrandbits(bits) if bits else 0
    if rng.randrange(2):
        n = -n
    return n


def rand_ratio(rng, maxbits=300):
    n = rand_int(rng, maxbits)
    d = abs(rand_int(rng, maxbits)) or 1
    return Fraction(n, d)


def num_text(x):
    if isinstance(x, Fraction):
        if x.denominator == 1:
            return str(x.numerator)
        return "%d/%d" % (x.numerator, x.denominator)
    return str(x)


def parse_num(s):
    if "/" in s:
        a, b = s.split("/")
        return Fraction(int(a), int(b))
    return int(s)


def num_class(x):
    """expected representation class: F fixnum, B bignum, R ratio"""
    if isinstance(x, Fraction):
        if x.denominator == 1:
            x = x.numerator
        else:
            return "R"
    return "F" if FIX_MIN <= x <= FIX_MAX else "B"
