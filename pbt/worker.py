"""Client of harness/vdriver (fork server) and helpers to run the stock binary."""
import os
import re
import resource
import signal
import subprocess

from . import build as B


class Result:
    __slots__ = ("kind", "code", "out", "err", "utime_ms", "end", "body")

    def __init__(self, kind, code, out, err, utime_ms):
        self.kind = kind          # exit | signal | wall
        self.code = code
        self.out = out            # str
        self.err = err
        self.utime_ms = utime_ms
        self.end = None           # dict of the #!END trailer or None
        self.body = out
        i = out.rfind("\n#!END ")
        if i >= 0:
            trailer = out[i + 7:]
            self.body = out[:i]
            d = {}
            m = re.match(r"(.*?)(?: msg=(.*))?\n?$", trailer, re.S)
            for kv in m.group(1).split():
                if "=" in kv:
                    k, v = kv.split("=", 1)
                    try:
                        d[k] = int(v)
                    except ValueError:
                        d[k] = v
            d["msg"] = (m.group(2) or "-").strip()
            self.end = d

    @property
    def status(self):
        """ok | crash | cpu | wall | exited"""
        if self.kind == "wall":
            return "wall"
        if self.kind == "signal":
            if self.code in (signal.SIGXCPU, signal.SIGKILL):
                return "cpu"
            return "crash"
        if self.end is None:
            if "ERROR: AddressSanitizer" in self.err or "WARNING: ThreadSanitizer" in self.err:
                return "crash"
            return "exited"
        return "ok"

    def sanitizer_summary(self):
        m = re.search(r"(ERROR: AddressSanitizer[^\n]*)", self.err)
        s = m.group(1) if m else ""
        fr = re.findall(r"#\d+ 0x[0-9a-f]+ in (\S+)", self.err)
        return (s + " | " + " < ".join(fr[:6])) if (s or fr) else self.err[-300:]

    def __repr__(self):
        return "<Result %s/%s out=%r err=%r>" % (self.kind, self.code, self.out[-200:], self.err[-200:])


def _preexec():
    try:
        resource.setrlimit(resource.RLIMIT_STACK, (1 << 30, resource.RLIM_INFINITY))
    except Exception:
        pass
    resource.setrlimit(resource.RLIMIT_CORE, (0, 0))


class Driver:
    def __init__(self, variant="plain", imports=("(scheme base)",), heap=None, prelude=None, dirs=(), big_stack=None, cwd=None):
        self.variant = variant
        self.dir = B.build(variant)
        cmd = [os.path.join(self.dir, "vdriver")]
        if heap:
            cmd += ["-h", heap]
        for m in imports:
            cmd += ["-m", m]
        for d in dirs:
            cmd += ["-A", d]
        if prelude:
            cmd += ["-p", prelude]
        self.cmd = cmd
        self.cwd = cwd
        if big_stack is None:
            big_stack = (variant == "asan")
        self.big_stack = big_stack
        self.p = None
        self.start()

    def start(self):
        env = B.run_env(self.dir)
        self.p = subprocess.Popen(self.cmd, stdin=subprocess.PIPE, stdout=subprocess.PIPE, stderr=subprocess.PIPE,
                                  env=env, preexec_fn=_preexec if self.big_stack else None, cwd=self.cwd)
        line = self.p.stdout.readline()
        if line.strip() != b"READY":
            err = self.p.stderr.read().decode(errors="replace")
            raise RuntimeError("vdriver failed to start: %r %s" % (line, err[-2000:]))

    def run(self, program, cpu=20, wall=None, **opts):
        if isinstance(program, str):
            program = program.encode("utf-8", errors="surrogatepass")
        if wall is None:
            wall = cpu * 3 + 10
        hdr = "RUN len=%d cpu=%d wall=%d" % (len(program), cpu, wall)
        for k, v in opts.items():
            if v is None:
                continue
            hdr += " %s=%s" % (k, v)
        try:
            self.p.stdin.write(hdr.encode() + b"\n" + program)
            self.p.stdin.flush()
            line = self.p.stdout.readline()
        except BrokenPipeError:
            line = b""
        if not line.startswith(b"RES "):
            err = b""
            try:
                self.p.kill()
                err = self.p.stderr.read()
            except Exception:
                pass
            self.start()
            raise RuntimeError("vdriver protocol error: %r %r" % (line, err[-500:]))
        d = dict(kv.split("=") for kv in line.decode().split()[1:])
        out = self._read(int(d["out"]))
        err = self._read(int(d["err"]))
        return Result(d["kind"], int(d["code"]), out.decode("utf-8", errors="replace"),
                      err.decode("utf-8", errors="replace"), int(d["utime_ms"]))

    def _read(self, n):
        buf = b""
        while len(buf) < n:
            chunk = self.p.stdout.read(n - len(buf))
            if not chunk:
                break
            buf += chunk
        return buf

    def close(self):
        if self.p:
            try:
                self.p.stdin.write(b"QUIT\n")
                self.p.stdin.flush()
                self.p.wait(timeout=5)
            except Exception:
                try:
                    self.p.kill()
                except Exception:
                    pass
            self.p = None

    def __del__(self):
        self.close()


def run_binary(variant, args, stdin=None, timeout=300, extra_env=None, cwd=None):
    """Runs the freshly built chibi-scheme binary of `variant`."""
    d = B.build(variant)
    env = B.run_env(d)
    if extra_env:
        env.update(extra_env)
    return subprocess.run([os.path.join(d, "chibi-scheme")] + list(args), input=stdin, capture_output=True,
                          timeout=timeout, env=env, cwd=cwd or d)
