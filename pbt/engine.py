"""Common plumbing: shards, seeds, evidence, replay files, known findings, VIOLATION lines."""
import collections
import hashlib
import importlib
import json
import multiprocessing
import os
import random
import sys
import time
import traceback

from . import build as B

VERIF = B.VERIF
NSHARDS = int(os.environ.get("VERIF_SHARDS", "16"))
MAX_REPORTED = 12


def digest(obj):
    return hashlib.sha1(json.dumps(obj, sort_keys=True, default=str).encode()).hexdigest()[:16]


def subseed(seed, *parts):
    h = hashlib.sha256(("%d|" % seed + "|".join(str(p) for p in parts)).encode()).digest()
    return int.from_bytes(h[:8], "big")


class ShardResult:
    """What one shard reports back (picklable)."""

    def __init__(self):
        self.evaluations = 0
        self.nontrivial = set()        # digests of distinct non-trivial cases
        self.samples = []              # a few actual cases
        self.classes = collections.Counter()
        self.violations = []           # list of dicts: {"case":..., "signature": str, "detail": str}
        self.excluded = collections.Counter()
        self.inconclusive = 0
        self.extra = {}
        self._rng = random.Random(12345)
        self._seen = 0

    def case(self, case, nontrivial, cls=None, sample=True):
        self.evaluations += 1
        if nontrivial:
            self.nontrivial.add(digest(case))
        if cls:
            if isinstance(cls, str):
                self.classes[cls] += 1
            else:
                for c in cls:
                    self.classes[c] += 1
        if sample and (nontrivial or self.evaluations < 3):
            self._seen += 1
            if len(self.samples) < 6:
                self.samples.append(case)
            else:
                j = self._rng.randrange(self._seen)
                if j < 6:
                    self.samples[j] = case

    def violation(self, case, signature, detail):
        self.violations.append({"case": case, "signature": signature, "detail": str(detail)[:4000]})


def merge(results):
    tot = ShardResult()
    for r in results:
        tot.evaluations += r.evaluations
        tot.nontrivial |= r.nontrivial
        tot.samples += r.samples
        tot.classes.update(r.classes)
        tot.violations += r.violations
        tot.excluded.update(r.excluded)
        tot.inconclusive += r.inconclusive
        for k, v in r.extra.items():
            if k.startswith("max_") and isinstance(v, (int, float)):
                tot.extra[k] = max(tot.extra.get(k, v), v)
            elif isinstance(v, (int, float)) and isinstance(tot.extra.get(k, 0), (int, float)):
                tot.extra[k] = tot.extra.get(k, 0) + v
            elif isinstance(v, list):
                tot.extra.setdefault(k, [])
                tot.extra[k] = (tot.extra[k] + v)[:50]
            else:
                tot.extra[k] = v
    rng = random.Random(99)
    rng.shuffle(tot.samples)
    tot.samples = tot.samples[:8]
    return tot


def _run_shard(args):
    modname, spec = args
    try:
        mod = importlib.import_module(modname)
        return mod.run_shard(spec)
    except Exception:
        r = ShardResult()
        r.extra["shard_error"] = [traceback.format_exc()[-3000:]]
        return r


def _replay_many(args):
    """runs mod.replay on a list of cases inside a worker process (so that drivers created while replaying
    are never inherited by the shard processes)"""
    modname, cases = args
    mod = importlib.import_module(modname)
    out = []
    for c in cases:
        try:
            v = mod.replay(c)
        except Exception:
            v = {"signature": "replay-error", "detail": traceback.format_exc()[-2000:]}
        out.append(v)
    return out


def replay_in_worker(modname, cases):
    if not cases:
        return []
    with multiprocessing.get_context("fork").Pool(1) as pool:
        return pool.map(_replay_many, [(modname, cases)])[0]


def load_findings():
    p = os.path.join(VERIF, "known_findings.json")
    if not os.path.exists(p):
        return []
    return json.load(open(p)).get("findings", [])


def open_findings(prop):
    return [f for f in load_findings() if f["property"] == prop and f.get("status") == "open"]


def main(modname, prop, argv):
    import argparse
    ap = argparse.ArgumentParser()
    ap.add_argument("--tier", default=os.environ.get("VERIF_TIER", "quick"))
    ap.add_argument("--seed", type=int, default=int(os.environ.get("VERIF_SEED", "0") or 0))
    ap.add_argument("--replay", default=None)
    ap.add_argument("--shards", type=int, default=NSHARDS)
    args = ap.parse_args(argv)
    mod = importlib.import_module(modname)
    t0 = time.time()

    try:
        for v in getattr(mod, "VARIANTS", ["plain"]):
            B.build(v)
    except B.BuildFailed as e:
        print("BUILD-FAILED property=%s %s" % (prop, str(e)[-1500:]))
        return 2

    if args.replay:
        case = json.load(open(args.replay))
        if "case" in case:
            case = case["case"]
        v = mod.replay(case)
        if v:
            print("replay: still violates: %s\n%s" % (v["signature"], v["detail"]))
            print("VIOLATION property=%s replay=%s" % (prop, args.replay))
            return 1
        print("replay: passes")
        return 0

    findings = open_findings(prop)
    known_lines = []
    # 1. known findings: run each reproducer; still failing => KNOWN-FINDING line
    active = []
    for f, v in zip(findings, replay_in_worker(modname, [f["reproducer"] for f in findings])):
        if v:
            known_lines.append("KNOWN-FINDING: property=%s %s" % (prop, f["what"]))
            active.append(f)
    # 2. regression tier
    violations = []
    regdir = os.path.join(VERIF, "regressions", prop)
    reg = []
    if os.path.isdir(regdir):
        for name in sorted(os.listdir(regdir)):
            if name.endswith(".json"):
                rc = json.load(open(os.path.join(regdir, name)))
                reg.append((name, rc.get("case", rc)))
    nreg = len(reg)
    for (name, case), v in zip(reg, replay_in_worker(modname, [c for _, c in reg])):
        if v:
            v.setdefault("case", case)
            if not _matches(v, active, mod):
                v["from_regression"] = name
                violations.append(v)
    # 3. search
    specs = mod.shards(args.tier, args.seed, args.shards, [f["id"] for f in active])
    if len(specs) > 1 and args.shards > 1:
        with multiprocessing.get_context("fork").Pool(min(args.shards, len(specs))) as pool:
            results = pool.map(_run_shard, [(modname, s) for s in specs], chunksize=1)
    else:
        results = [_run_shard((modname, s)) for s in specs]
    tot = merge(results)
    if "shard_error" in tot.extra:
        print("HARNESS-ERROR property=%s\n%s" % (prop, tot.extra["shard_error"][0]))
        _write_evidence(mod, prop, args, tot, nreg, 0, time.time() - t0, known_lines, harness_error=True)
        return 3
    # 4. confirm violations (3 replays in fresh children), dedupe by signature, filter known
    unstable = 0
    seen_sig = set()
    for v in tot.violations:
        if v["signature"] in seen_sig:
            continue
        if len(seen_sig) >= MAX_REPORTED:
            tot.extra["violations_not_reported_beyond_cap"] = tot.extra.get("violations_not_reported_beyond_cap", 0) + 1
            continue
        if _matches(v, active, mod):
            tot.excluded["violation_matching_known_finding"] += 1
            continue
        ok = sum(1 for r in replay_in_worker(modname, [v["case"]] * 3) if r and r.get("signature") != "replay-error")
        if ok == 3:
            seen_sig.add(v["signature"])
            violations.append(v)
        else:
            unstable += 1
    tot.extra["unstable_observations"] = unstable
    # 5. report
    for l in known_lines:
        print(l)
    out_paths = []
    for v in violations:
        rd = os.path.join(os.environ.get("VERIF_REPLAY_DIR", os.path.join(VERIF, "replays")), prop)
        os.makedirs(rd, exist_ok=True)
        path = os.path.join(rd, digest(v["case"]) + ".json")
        json.dump({"property": prop, "signature": v["signature"], "detail": v["detail"], "case": v["case"]},
                  open(path, "w"), indent=1, default=str)
        out_paths.append(path)
        print("--- violation: %s\n%s" % (v["signature"], v["detail"][:1500]))
        print("VIOLATION property=%s replay=%s" % (prop, path))
    _write_evidence(mod, prop, args, tot, nreg, len(violations), time.time() - t0, known_lines)
    print("[%s] tier=%s seed=%d evaluations=%d nontrivial=%d violations=%d inconclusive=%d wall=%.1fs" % (
        prop, args.tier, args.seed, tot.evaluations, len(tot.nontrivial), len(violations), tot.inconclusive, time.time() - t0))
    return 1 if violations else 0


def _matches(v, active, mod):
    m = getattr(mod, "matches_finding", None)
    for f in active:
        if m:
            if m(v, f):
                return True
        elif f.get("signature") and f["signature"] == v.get("signature"):
            return True
    return False


def _write_evidence(mod, prop, args, tot, nreg, nviol, wall, known_lines, harness_error=False):
    cov = {
        "evaluations": tot.evaluations,
        "distinct_nontrivial": len(tot.nontrivial),
        "rule": mod.RULE,
        "samples": tot.samples[:8] if tot.samples else ["(no case generated)"],
        "classes": dict(tot.classes.most_common(60)),
        "excluded": dict(tot.excluded),
        "inconclusive": tot.inconclusive,
        "regression_cases_replayed": nreg,
        "known_findings_still_failing": known_lines,
    }
    for k, v in tot.extra.items():
        cov[k] = v
    if harness_error:
        cov["harness_error"] = True
    ev = {
        "property_id": prop,
        "tier": args.tier if args.tier in ("quick", "thorough") else "quick",
        "seed": args.seed,
        "level": "exploration",
        "coverage": cov,
        "assumptions": getattr(mod, "ASSUMPTIONS", []),
        "wall_s": round(wall, 2),
        "violations": nviol,
    }
    evdir = os.environ.get("VERIF_EVIDENCE_DIR", os.path.join(VERIF, "evidence"))
    os.makedirs(evdir, exist_ok=True)
    with open(os.path.join(evdir, prop + ".json"), "w") as fh:
        json.dump(ev, fh, indent=1, default=str)


# ---------------------------------------------------------------------------
# helpers for Scheme text

def scm_str(s):
    out = ['"']
    for ch in s:
        o = ord(ch)
        if ch == '"':
            out.append('\\"')
        elif ch == "\\":
            out.append("\\\\")
        elif o < 32 or o == 127 or o > 126:
            out.append("\\x%x;" % o)
        else:
            out.append(ch)
    out.append('"')
    return "".join(out)


# ---------------------------------------------------------------------------
# Hypothesis glue

class Found(Exception):
    """raised inside a Hypothesis test when the oracle fails"""

    def __init__(self, signature, detail):
        Exception.__init__(self, signature)
        self.signature = signature
        self.detail = detail


class StopSearch(Exception):
    """raised by a test function to end hypothesis_search early (the check is already decided)"""


def hypothesis_search(strategy, test, seed, max_examples, res, to_case=lambda x: x, max_findings=3):
    """Runs `test(example)` (which raises Found on an oracle failure) over examples drawn from
    `strategy`; every failure is shrunk by Hypothesis and recorded in res.violations with the
    minimal example.  After a finding the search continues with a derived seed and with that
    signature excluded (so a shallow defect does not hide what lies behind it)."""
    import hypothesis
    from hypothesis import HealthCheck, Phase, given, settings

    excluded = set()
    remaining = max_examples
    rounds = 0
    while remaining > 0 and rounds <= max_findings:
        last = {}
        count = [0]

        stopped = [False]

        def wrapped(ex):
            count[0] += 1
            try:
                test(ex)
            except StopSearch:
                stopped[0] = True
                raise
            except Found as f:
                if f.signature in excluded:
                    return
                last["ex"] = ex
                last["found"] = f
                raise

        runner = settings(max_examples=remaining, database=None, deadline=None, derandomize=False,
                          phases=(Phase.generate, Phase.shrink), report_multiple_bugs=False,
                          suppress_health_check=list(HealthCheck), print_blob=False)(
            hypothesis.seed(subseed(seed, "hyp", rounds) % (2 ** 63))(given(strategy)(wrapped)))
        try:
            runner()
            remaining = 0
        except Found:
            f = last["found"]
            res.violation(to_case(last["ex"]), f.signature, f.detail)
            excluded.add(f.signature)
            remaining -= count[0]
        except hypothesis.errors.Unsatisfiable:
            remaining = 0
        except StopSearch:
            remaining = 0
        except (hypothesis.errors.Flaky, BaseExceptionGroup) as e:
            if stopped[0]:
                break
            # the failure did not reproduce while shrinking (timing-dependent): keep the last failing
            # example unshrunk; the confirmation replays decide whether it is reported
            if "found" in last:
                f = last["found"]
                res.violation(to_case(last["ex"]), f.signature, f.detail)
                excluded.add(f.signature)
                res.extra["flaky_during_shrink"] = res.extra.get("flaky_during_shrink", 0) + 1
                remaining -= count[0]
            else:
                raise
        rounds += 1
    return excluded


class RngChooser(object):
    """choice source backed by random.Random (enumerators, replay of recorded choices)"""

    def __init__(self, rng):
        self.rng = rng
        self.trace = []

    def n(self, k):
        v = self.rng.randrange(k) if k > 1 else 0
        self.trace.append(v)
        return v

    def p(self, prob):
        return self.n(1000) < int(prob * 1000)

    def pick(self, seq):
        return seq[self.n(len(seq))]


class ReplayChooser(object):
    """replays a recorded choice sequence (zeros once exhausted): the replay file of a shrunk case"""

    def __init__(self, trace):
        self.src = list(trace)
        self.i = 0
        self.trace = []

    def n(self, k):
        v = self.src[self.i] if self.i < len(self.src) else 0
        self.i += 1
        if k <= 1:
            v = 0
        else:
            v = v % k
        self.trace.append(v)
        return v

    def p(self, prob):
        return self.n(1000) < int(prob * 1000)

    def pick(self, seq):
        return seq[self.n(len(seq))]


class HypChooser(object):
    """choice source backed by Hypothesis draws, so that Hypothesis shrinks the choice sequence
    (alternatives listed first / smaller numbers are the simpler ones)"""

    def __init__(self, data):
        from hypothesis import strategies as st
        self.data = data
        self.st = st
        self.trace = []

    def n(self, k):
        v = self.data.draw(self.st.integers(0, k - 1)) if k > 1 else 0
        self.trace.append(v)
        return v

    def p(self, prob):
        return self.n(1000) < int(prob * 1000)

    def pick(self, seq):
        return seq[self.n(len(seq))]
