"""Typed generator of closed, terminating, evaluation-order-insensitive programs over the
R7RS core forms and derived forms (C03, C09, and the user code of C07).

Order-insensitivity is by construction: in every operand / initialiser list at most one
operand may have effects or read a mutable variable ("impure"); all others are pure
(constants, immutable variables, lambda expressions, pure primitives of pure operands).
All loops carry a decreasing counter; unspecified values are never observed; errors only
arise from explicit raise / error with R7RS-defined outcomes.

Generators draw from a chooser (engine.RngChooser / HypChooser / ReplayChooser).
"""

INT, BOOL, LIST, SYM = "int", "bool", "list", "sym"
TYPES = [INT, INT, INT, LIST, BOOL, SYM]


class Var(object):
    __slots__ = ("name", "type", "mutable", "proc")

    def __init__(self, name, type, mutable=False, proc=None):
        self.name = name
        self.type = type
        self.mutable = mutable
        self.proc = proc       # (argtypes, rettype, impure) for procedure-valued variables


class Gen(object):
    def __init__(self, ch, max_depth=4, fold_bias=False, features=None):
        self.ch = ch
        self.counter = 0
        self.max_depth = max_depth
        self.fold_bias = fold_bias
        self.stats = set()

    def fresh(self, prefix="v"):
        self.counter += 1
        return "%s%d" % (prefix, self.counter)

    # ------------------------------------------------------------------ constants
    def const(self, t):
        ch = self.ch
        if t == INT:
            if self.fold_bias and ch.p(0.3):
                self.stats.add("big-const")
                return ch.pick(["4611686018427387903", "-4611686018427387904", "4611686018427387904", "2305843009213693952",
                                "9223372036854775807", "1000000007", "-1", "0", "3037000500"])
            return str(ch.pick([0, 1, 2, 3, 5, 7, 10, -1, -4, 42, 100]))
        if t == BOOL:
            return ch.pick(["#t", "#f"])
        if t == SYM:
            return "'" + ch.pick(["a", "b", "c", "foo"])
        if t == LIST:
            return ch.pick(["'()", "'(1 2 3)", "'(4 5)", "(list 1 2)", "'(7)"])
        raise ValueError(t)

    # ------------------------------------------------------------------ expressions
    def vars_of(self, env, t, pure):
        return [v for v in env if v.type == t and v.proc is None and not (pure and v.mutable)]

    def expr(self, t, env, depth, pure=False):
        """expression of type t; pure => no effects and no reads of mutable variables"""
        ch = self.ch
        if depth <= 0 or ch.p(0.18):
            vs = self.vars_of(env, t, pure)
            if vs and ch.p(0.7):
                return ch.pick(vs).name
            return self.const(t)
        alts = ["prim", "prim", "if", "let", "var"]
        if t in (INT, LIST):
            alts += ["cond", "let*", "call-lambda", "and-or", "case"]
        if not pure:
            alts += ["begin-set", "named-let", "do", "letrec", "closure-call", "apply", "values", "internal-define",
                     "when-unless", "callproc", "set-captured", "rest-lambda", "let-values", "quasi", "vector", "letrec-mutual"]
        else:
            alts += ["pure-lambda-call"]
        kind = ch.pick(alts)
        self.stats.add(kind)
        m = getattr(self, "g_" + kind.replace("-", "_").replace("*", "star"))
        return m(t, env, depth, pure)

    def operands(self, types, env, depth, pure):
        """operand list with at most one impure operand"""
        ch = self.ch
        impure_ix = ch.n(len(types)) if (types and not pure) else -1
        return [self.expr(tt, env, depth - 1, pure=(i != impure_ix)) for i, tt in enumerate(types)]

    def g_var(self, t, env, depth, pure):
        vs = self.vars_of(env, t, pure)
        return self.ch.pick(vs).name if vs else self.const(t)

    def g_prim(self, t, env, depth, pure):
        ch = self.ch
        if t == INT:
            op = ch.pick(["+", "-", "*", "+", "length", "car", "quotient", "remainder", "modulo", "abs", "min", "max", "vector-ref", "if-int"])
            if op in ("+", "-", "*", "min", "max"):
                a, b = self.operands([INT, INT], env, depth, pure)
                if op == "*" and not self.fold_bias:
                    return "(* %s (modulo %s 7))" % (a, b)
                return "(%s %s %s)" % (op, a, b)
            if op == "length":
                return "(length %s)" % self.expr(LIST, env, depth - 1, pure)
            if op == "car":
                l = self.expr(LIST, env, depth - 1, pure)
                return "(let ((l %s)) (if (pair? l) (car l) 0))" % l
            if op in ("quotient", "remainder", "modulo"):
                a, b = self.operands([INT, INT], env, depth, pure)
                return "(%s %s (+ 1 (abs %s)))" % (op, a, b)
            if op == "abs":
                return "(abs %s)" % self.expr(INT, env, depth - 1, pure)
            if op == "vector-ref":
                a, b, c = self.operands([INT, INT, INT], env, depth, pure)
                return "(vector-ref (vector %s %s) (modulo %s 2))" % (a, b, c)
            return "(if %s 1 0)" % self.expr(BOOL, env, depth - 1, pure)
        if t == BOOL:
            op = ch.pick(["<", "=", ">", "null?", "not", "eq?", "even?", "equal?", "zero?", "pair?", "memv"])
            if op in ("<", "=", ">"):
                a, b = self.operands([INT, INT], env, depth, pure)
                return "(%s %s %s)" % (op, a, b)
            if op in ("null?", "pair?"):
                return "(%s %s)" % (op, self.expr(LIST, env, depth - 1, pure))
            if op == "not":
                return "(not %s)" % self.expr(BOOL, env, depth - 1, pure)
            if op == "eq?":
                a, b = self.operands([SYM, SYM], env, depth, pure)
                return "(eq? %s %s)" % (a, b)
            if op == "equal?":
                a, b = self.operands([LIST, LIST], env, depth, pure)
                return "(equal? %s %s)" % (a, b)
            if op == "memv":
                a, b = self.operands([INT, LIST], env, depth, pure)
                return "(if (memv %s %s) #t #f)" % (a, b)
            return "(%s %s)" % (op, self.expr(INT, env, depth - 1, pure))
        if t == SYM:
            a, b, c = self.operands([BOOL, SYM, SYM], env, depth, pure)
            return "(if %s %s %s)" % (a, b, c)
        # LIST
        op = ch.pick(["cons", "list", "append", "reverse", "cdr", "map", "list-tail", "iota", "quasi"])
        if op == "cons":
            a, b = self.operands([INT, LIST], env, depth, pure)
            return "(cons %s %s)" % (a, b)
        if op == "list":
            n = 1 + ch.n(3)
            return "(list %s)" % " ".join(self.operands([INT] * n, env, depth, pure))
        if op == "append":
            a, b = self.operands([LIST, LIST], env, depth, pure)
            return "(append %s %s)" % (a, b)
        if op == "reverse":
            return "(reverse %s)" % self.expr(LIST, env, depth - 1, pure)
        if op == "cdr":
            return "(let ((l %s)) (if (pair? l) (cdr l) l))" % self.expr(LIST, env, depth - 1, pure)
        if op == "map":
            x = self.fresh("m")
            body = self.expr(INT, env + [Var(x, INT)], depth - 2, pure=True)
            return "(map (lambda (%s) %s) %s)" % (x, body, self.expr(LIST, env, depth - 1, pure))
        if op == "list-tail":
            return "(let ((l %s)) (list-tail l (quotient (length l) 2)))" % self.expr(LIST, env, depth - 1, pure)
        if op == "iota":
            return "(let loop ((i 0) (acc '())) (if (< i %d) (loop (+ i 1) (cons i acc)) acc))" % ch.n(5)
        return self.g_quasi(t, env, depth, pure)

    def g_if(self, t, env, depth, pure):
        if self.fold_bias and self.ch.p(0.4):
            test = self.ch.pick(["#t", "#f", "0", "'()", "(< 1 2)", "(= 2 3)", "(not #f)", "\"s\"", "'#f", "(quote #f)", "'#t", "'sym", "'(1)",
                                 "(let ((cv '#f)) cv)", "(let ((cv #f)) cv)", "((lambda (cv) cv) '#f)", "(not '#f)", "(if '#f #t #f)", "(and '#f #t)",
                                 "(or '#f #f)", "(eq? 'a 'a)", "(null? '())", "(pair? '())"])
            self.stats.add("const-test")
        else:
            test = self.expr(BOOL, env, depth - 1, pure)
        if self.fold_bias and test in ("#t", "(< 1 2)", "(not #f)", "0", "'()", "\"s\"", "'#t", "'sym", "'(1)", "(not '#f)", "(eq? 'a 'a)", "(null? '())") and self.ch.p(0.3):
            self.stats.add("dead-error-branch")
            dead = self.ch.pick(["(quotient 1 0)", "(car '())", "(+ 'a 1)", "(vector-ref (vector) 0)", "(error \"never\")"])
            return "(if %s %s %s)" % (test, self.expr(t, env, depth - 1, pure), dead)
        return "(if %s %s %s)" % (test, self.expr(t, env, depth - 1, pure), self.expr(t, env, depth - 1, pure))

    def g_cond(self, t, env, depth, pure):
        n = 1 + self.ch.n(3)
        cl = []
        for _ in range(n):
            if t == INT and self.ch.p(0.2):
                x = self.fresh("c")
                cl.append("((let ((q %s)) (if (> q 0) q #f)) => (lambda (%s) (+ %s 1)))" % (self.expr(INT, env, depth - 1, pure), x, x))
            else:
                cl.append("(%s %s)" % (self.expr(BOOL, env, depth - 1, pure), self.expr(t, env, depth - 1, pure)))
        cl.append("(else %s)" % self.expr(t, env, depth - 1, pure))
        return "(cond %s)" % " ".join(cl)

    def g_case(self, t, env, depth, pure):
        key = self.expr(INT, env, depth - 1, pure)
        return "(case (modulo %s 5) ((0 1) %s) ((2) %s) (else %s))" % (
            key, self.expr(t, env, depth - 1, pure), self.expr(t, env, depth - 1, pure), self.expr(t, env, depth - 1, pure))

    def g_and_or(self, t, env, depth, pure):
        op = self.ch.pick(["and", "or"])
        a = self.expr(BOOL, env, depth - 1, pure)
        b = self.expr(t, env, depth - 1, pure)
        c = self.expr(t, env, depth - 1, pure)
        if op == "and":
            return "(or (and %s %s) %s)" % (a, b, c)
        return "(let ((r (or (and %s %s) #f))) (if r r %s))" % (a, b, c)

    def g_let(self, t, env, depth, pure):
        n = 1 + self.ch.n(3)
        types = [self.ch.pick(TYPES) for _ in range(n)]
        inits = self.operands(types, env, depth, pure)
        shadow = [v for v in env if v.proc is None]
        vs = []
        for tt in types:
            if shadow and self.ch.p(0.25):
                name = self.ch.pick(shadow).name        # shadowing
                self.stats.add("shadow")
            else:
                name = self.fresh()
            vs.append(Var(name, tt, mutable=(not pure and self.ch.p(0.4))))
        # distinct names within one let
        seen = set()
        for v in vs:
            while v.name in seen:
                v.name = self.fresh()
            seen.add(v.name)
        env2 = [e for e in env if e.name not in seen] + vs
        if self.fold_bias:
            inits = [self.const(tt) if self.ch.p(0.5) else i for tt, i in zip(types, inits)]
            self.stats.add("const-let")
        return "(let (%s) %s)" % (" ".join("(%s %s)" % (v.name, i) for v, i in zip(vs, inits)), self.body(t, env2, depth - 1, pure))

    def g_letstar(self, t, env, depth, pure):
        n = 1 + self.ch.n(3)
        env2 = list(env)
        bs = []
        for _ in range(n):
            tt = self.ch.pick(TYPES)
            init = self.expr(tt, env2, depth - 1, pure)
            v = Var(self.fresh(), tt, mutable=(not pure and self.ch.p(0.3)))
            bs.append("(%s %s)" % (v.name, init))
            env2 = env2 + [v]
        return "(let* (%s) %s)" % (" ".join(bs), self.body(t, env2, depth - 1, pure))

    def body(self, t, env, depth, pure):
        """body: optional effectful statements on mutable variables, then the result expression"""
        if pure:
            return self.expr(t, env, depth, True)
        stmts = []
        muts = [v for v in env if v.mutable and v.proc is None]
        for _ in range(self.ch.n(3)):
            k = self.ch.n(3)
            if k == 0 and muts:
                v = self.ch.pick(muts)
                stmts.append("(set! %s %s)" % (v.name, self.expr(v.type, env, depth - 1, False)))
                self.stats.add("set!")
            elif k == 1:
                stmts.append("(display %s)" % self.expr(self.ch.pick([INT, SYM, LIST]), env, depth - 1, False))
            elif self.fold_bias:
                stmts.append(self.ch.pick(["1", "(+ 1 2)", "'x", "(if #f #f)", "(car '(1))", "\"dead\"", "(quotient 1 0)" if False else "(* 3 4)"]))
                self.stats.add("dead-stmt")
        return " ".join(stmts + [self.expr(t, env, depth, False)])

    def g_begin_set(self, t, env, depth, pure):
        return "(begin %s)" % self.body(t, env, depth - 1, False) if not pure else self.expr(t, env, depth - 1, True)

    def g_when_unless(self, t, env, depth, pure):
        muts = [v for v in env if v.mutable and v.proc is None]
        if not muts:
            return self.g_if(t, env, depth, pure)
        v = self.ch.pick(muts)
        form = self.ch.pick(["when", "unless"])
        return "(begin (%s %s (set! %s %s) (display '%s)) %s)" % (
            form, self.expr(BOOL, env, depth - 1, False), v.name, self.expr(v.type, env, depth - 1, False), form, self.expr(t, env, depth - 1, False))

    def g_call_lambda(self, t, env, depth, pure):
        n = 1 + self.ch.n(2)
        types = [self.ch.pick(TYPES) for _ in range(n)]
        ps = [Var(self.fresh("p"), tt, mutable=(not pure and self.ch.p(0.3))) for tt in types]
        args = self.operands(types, env, depth, pure)
        return "((lambda (%s) %s) %s)" % (" ".join(p.name for p in ps), self.body(t, env + ps, depth - 1, pure), " ".join(args))

    def g_pure_lambda_call(self, t, env, depth, pure):
        return self.g_call_lambda(t, env, depth, True)

    def g_rest_lambda(self, t, env, depth, pure):
        n = self.ch.n(4)
        p = Var(self.fresh("p"), INT)
        r = Var(self.fresh("rest"), LIST)
        args = self.operands([INT] * (1 + n), env, depth, pure)
        self.stats.add("rest%d" % min(n, 2))
        if t == LIST:
            body = "(cons %s %s)" % (p.name, r.name) if self.ch.p(0.5) else self.expr(LIST, env + [p, r], depth - 1, pure)
        elif t == INT:
            body = "(+ %s (length %s) %s)" % (p.name, r.name, self.expr(INT, env + [p, r], depth - 1, pure))
        else:
            body = self.expr(t, env + [p, r], depth - 1, pure)
        return "((lambda (%s . %s) %s) %s)" % (p.name, r.name, body, " ".join(args))

    def g_named_let(self, t, env, depth, pure):
        loop = self.fresh("loop")
        i = Var(self.fresh("i"), INT)
        acc = Var(self.fresh("acc"), t)
        n = self.ch.n(5)
        step = self.expr(t, env + [i, acc], depth - 2, True)
        return "(let %s ((%s 0) (%s %s)) (if (< %s %d) (%s (+ %s 1) %s) %s))" % (
            loop, i.name, acc.name, self.expr(t, env, depth - 1, False), i.name, n, loop, i.name, step, acc.name)

    def g_do(self, t, env, depth, pure):
        i = Var(self.fresh("i"), INT)
        acc = Var(self.fresh("acc"), t)
        n = self.ch.n(5)
        step = self.expr(t, env + [i, acc], depth - 2, True)
        cmd = "(display %s)" % i.name if self.ch.p(0.3) else ""
        return "(do ((%s 0 (+ %s 1)) (%s %s %s)) ((= %s %d) %s) %s)" % (
            i.name, i.name, acc.name, self.expr(t, env, depth - 1, False), step, i.name, n, acc.name, cmd)

    def g_letrec(self, t, env, depth, pure):
        f = self.fresh("f")
        n = Var(self.fresh("n"), INT)
        form = self.ch.pick(["letrec", "letrec*"])
        base = self.expr(t, env, depth - 1, True)
        if t == INT:
            rec = "(+ %s (%s (- %s 1)))" % (self.expr(INT, env + [n], depth - 2, True), f, n.name)
        elif t == LIST:
            rec = "(cons %s (%s (- %s 1)))" % (n.name, f, n.name)
        else:
            rec = "(%s (- %s 1))" % (f, n.name)
        return "(%s ((%s (lambda (%s) (if (<= %s 0) %s %s)))) (%s %d))" % (form, f, n.name, n.name, base, rec, f, self.ch.n(5))

    def g_letrec_mutual(self, t, env, depth, pure):
        ev, od = self.fresh("ev"), self.fresh("od")
        k = self.ch.n(7)
        a = self.expr(t, env, depth - 1, True)
        b = self.expr(t, env, depth - 1, True)
        return "(letrec ((%s (lambda (n) (if (= n 0) %s (%s (- n 1))))) (%s (lambda (n) (if (= n 0) %s (%s (- n 1)))))) (%s %d))" % (ev, a, od, od, b, ev, ev, k)

    def g_closure_call(self, t, env, depth, pure):
        """counter-style closure capturing a mutated variable"""
        c = Var(self.fresh("cnt"), INT, mutable=True)
        mk = self.fresh("bump")
        self.stats.add("captured-mutated")
        init = self.expr(INT, env, depth - 1, False)
        k = 1 + self.ch.n(3)
        calls = " ".join("(%s)" % mk for _ in range(k))
        res = self.expr(t, env + [c], depth - 1, False)
        return "(let ((%s %s)) (let ((%s (lambda () (set! %s (+ %s 1)) %s))) %s %s))" % (c.name, init, mk, c.name, c.name, c.name, calls, res)

    def g_set_captured(self, t, env, depth, pure):
        """closure created before a set! observes the assignment"""
        x = Var(self.fresh("x"), INT, mutable=True)
        g = self.fresh("get")
        self.stats.add("captured-mutated")
        init = self.expr(INT, env, depth - 1, False)
        newv = self.expr(INT, env + [x], depth - 1, False)
        if t == INT:
            res = "(+ (%s) %s)" % (g, x.name)
        elif t == LIST:
            res = "(list (%s) %s)" % (g, x.name)
        elif t == BOOL:
            res = "(= (%s) %s)" % (g, x.name)
        else:
            res = "(if (= (%s) %s) 'same 'diff)" % (g, x.name)
        return "(let ((%s %s)) (let ((%s (lambda () %s))) (set! %s %s) %s))" % (x.name, init, g, x.name, x.name, newv, res)

    def g_internal_define(self, t, env, depth, pure):
        """internal defines with a forward reference from a procedure body"""
        a, f = self.fresh("a"), self.fresh("f")
        self.stats.add("internal-define-forward")
        va = Var(a, INT)
        init = self.expr(INT, env, depth - 1, True)
        if t == INT:
            res = "(+ (%s 1) %s)" % (f, a)
        elif t == LIST:
            res = "(list (%s 2) %s)" % (f, a)
        elif t == BOOL:
            res = "(< (%s 0) %s)" % (f, a)
        else:
            res = "(if (> (%s 0) 3) 'big 'small)" % f
        return "(let () (define (%s y) (+ y %s)) (define %s %s) %s)" % (f, a, a, init, res)

    def g_apply(self, t, env, depth, pure):
        if t == INT:
            return "(apply + %s %s)" % (self.expr(INT, env, depth - 1, True), self.expr(LIST, env, depth - 1, pure))
        if t == LIST:
            return "(apply list %s %s)" % (self.expr(INT, env, depth - 1, True), self.expr(LIST, env, depth - 1, pure))
        return "(apply (lambda (a . r) %s) %s %s)" % (self.expr(t, env, depth - 2, True), self.expr(INT, env, depth - 1, True), self.expr(LIST, env, depth - 1, pure))

    def g_values(self, t, env, depth, pure):
        a, b = Var(self.fresh("a"), INT), Var(self.fresh("b"), LIST)
        e1, e2 = self.operands([INT, LIST], env, depth, pure)
        return "(call-with-values (lambda () (values %s %s)) (lambda (%s %s) %s))" % (e1, e2, a.name, b.name, self.expr(t, env + [a, b], depth - 1, pure))

    def g_let_values(self, t, env, depth, pure):
        a, b, c = Var(self.fresh("a"), INT), Var(self.fresh("b"), INT), Var(self.fresh("c"), LIST)
        form = self.ch.pick(["let-values", "let*-values"])
        e1, e2 = self.operands([INT, INT], env, depth, pure)
        e3 = self.expr(LIST, env, depth - 1, True)
        return "(%s (((%s %s) (values %s %s)) ((%s) (values %s))) %s)" % (form, a.name, b.name, e1, e2, c.name, e3, self.expr(t, env + [a, b, c], depth - 1, pure))

    def g_quasi(self, t, env, depth, pure):
        if t != LIST:
            return self.expr(t, env, depth - 1, pure)
        a, b = self.operands([INT, LIST], env, depth, pure)
        self.stats.add("quasiquote")
        if self.ch.p(0.35):
            # nested levels (R7RS 4.2.8): only what reaches level 0 is evaluated
            self.stats.add("nested-quasiquote")
            return self.ch.pick(["`(1 `(2 ,(3 ,%s)) ,@%s)", "`(1 `(2 ,@(3 ,%s)) . ,%s)", "`(a `(b ,(c ,@(list %s 0)) . ,%s))", "`(x `(y `(z ,,(q ,%s))) ,@%s)",
                                 "`#(1 `(2 ,(v ,%s)) ,@%s)"]) % (a, b)
        return self.ch.pick(["`(1 ,%s ,@%s 9)", "`(,%s . ,%s)", "`((x ,%s) ,@%s)", "`(,@%s ,%s)"][:3]) % (a, b)

    def g_vector(self, t, env, depth, pure):
        v = self.fresh("vec")
        a, b = self.operands([INT, INT], env, depth, pure)
        c = self.expr(INT, env, depth - 1, True)
        if t == INT:
            res = "(+ (vector-ref %s 0) (vector-ref %s 1))" % (v, v)
        elif t == LIST:
            res = "(vector->list %s)" % v
        elif t == BOOL:
            res = "(= (vector-ref %s 0) (vector-ref %s 1))" % (v, v)
        else:
            res = "(if (> (vector-length %s) 1) 'two 'one)" % v
        return "(let ((%s (vector %s %s))) (vector-set! %s (modulo %s 2) 77) %s)" % (v, a, b, v, c, res)

    def g_callproc(self, t, env, depth, pure):
        procs = [v for v in env if v.proc is not None and v.proc[1] == t]
        if not procs:
            return self.g_call_lambda(t, env, depth, pure)
        f = self.ch.pick(procs)
        args = [self.expr(tt, env, depth - 1, True) for tt in f.proc[0]]
        return "(%s %s)" % (f.name, " ".join(args))

    # ------------------------------------------------------------------ programs
    def program(self):
        """top-level defines (variables and procedures) followed by printed expressions, inside one main thunk;
        uncaught raises are reported by a top-level guard in the program text"""
        ch = self.ch
        env = []
        defs = []
        for _ in range(ch.n(4)):
            if ch.p(0.5):
                t = ch.pick(TYPES)
                v = Var(self.fresh("g"), t, mutable=ch.p(0.4))
                defs.append("(define %s %s)" % (v.name, self.expr(t, env, 2, pure=False)))
                env.append(v)
            else:
                argtypes = [ch.pick(TYPES) for _ in range(ch.n(3))]
                rt = ch.pick(TYPES)
                ps = [Var(self.fresh("p"), tt) for tt in argtypes]
                name = self.fresh("proc")
                body = self.body(rt, env + ps, self.max_depth - 1, False)
                defs.append("(define (%s %s) %s)" % (name, " ".join(p.name for p in ps), body))
                env.append(Var(name, None, proc=(argtypes, rt, True)))
        outs = []
        for _ in range(1 + ch.n(3)):
            t = ch.pick(TYPES)
            e = self.expr(t, env, self.max_depth, pure=False)
            if ch.p(0.08):
                e = "(if %s (raise 'sym-%d) %s)" % (self.expr(BOOL, env, 2, False), ch.n(3), e)
                self.stats.add("raise")
            elif ch.p(0.05):
                e = "(if %s (error \"msg\" %s) %s)" % (self.expr(BOOL, env, 2, False), self.expr(INT, env, 1, True), e)
                self.stats.add("error")
            elif ch.p(0.06):
                e = "(guard (e ((symbol? e) (display e) %s) ((error-object? e) (display (error-object-message e)) %s)) (if %s (raise 'caught) %s))" % (
                    self.const(t), self.const(t), self.expr(BOOL, env, 2, False), e)
                self.stats.add("guard")
            outs.append("(write %s) (newline)" % e)
        return PROGRAM_TEMPLATE % ("\n".join(defs), "\n  ".join(outs))


PROGRAM_TEMPLATE = """%s
(define (main)
  %s)
(guard (e ((symbol? e) (display "uncaught-symbol:") (display e))
          ((error-object? e) (display "uncaught-error:") (display (error-object-message e)) (write (error-object-irritants e))))
  (main))
"""
