#!/bin/bash
# scripts/seeded_confirm.sh <seed-id> <mutant-dir> <check-id...>      (development aid, not a registered command)
# Confirms a seeded change produced by a sub-agent in a scratch worktree of /repo (never in /repo itself):
#   1. the patch applies to /repo's HEAD, 2. `make` builds, 3. the demonstration behaves differently from the
#   unpatched tree, 4. the existing ctest suite passes, 5. runs the given checks against it (VERIF_REPO).
# Results go to /verif/seeded/<seed-id>/ (patch.diff, demo, README.md, confirm.log, check output).
set -u
id=$1; src=$2; shift 2
W=/var/tmp/seed-$id
out=/verif/seeded/$id
mkdir -p $out
cp -r $src/. $out/
find $out -size +200k -type f -delete
log=$out/confirm.log
: > $log
git -C /repo worktree remove --force $W >/dev/null 2>&1
git -C /repo worktree add --detach $W HEAD >/dev/null 2>&1 || { echo "worktree failed" | tee -a $log; exit 2; }
cleanup() { git -C /repo worktree remove --force $W >/dev/null 2>&1; rm -rf /var/tmp/seed-$id-base; }
trap cleanup EXIT
rundemo() {  # $1 = tree
  if [ -f $out/demo.sh ]; then (cd $1 && rm -rf MUTANT && cp -r $out MUTANT && LD_LIBRARY_PATH=. CHIBI_IGNORE_SYSTEM_PATH=1 CHIBI_MODULE_PATH=lib timeout 600 bash MUTANT/demo.sh 2>&1 | tail -40; rm -rf MUTANT)
  else (cd $1 && LD_LIBRARY_PATH=. CHIBI_IGNORE_SYSTEM_PATH=1 CHIBI_MODULE_PATH=lib timeout 300 ./chibi-scheme $out/demo.scm 2>&1 | tail -40); fi
}
# unpatched demo output
(cd $W && timeout 900 make -j8 >/dev/null 2>&1) || { echo "BASE BUILD FAILED" | tee -a $log; exit 2; }
echo "=== demo on the unpatched tree" >> $log; rundemo $W >> $log 2>&1
(cd $W && git clean -fdxq && git checkout -q -- .)
git -C $W apply $out/patch.diff || { echo "PATCH DOES NOT APPLY" | tee -a $log; exit 2; }
git -C $W diff --stat | tail -1 | tee -a $log
(cd $W && timeout 900 make -j8 > /var/tmp/seed-$id-make.log 2>&1) || { echo "PATCHED BUILD FAILED" | tee -a $log; tail -5 /var/tmp/seed-$id-make.log | tee -a $log; exit 2; }
echo "=== demo on the patched tree" >> $log; rundemo $W >> $log 2>&1
(cd $W && git clean -fdxq -e _build)
(cd $W && cmake -G Ninja -S . -B _build -DCMAKE_BUILD_TYPE=RelWithDebInfo -DCMAKE_C_FLAGS=-Wno-error > /dev/null 2>&1 && cmake --build _build > /dev/null 2>&1 && timeout 1800 ctest --test-dir _build -j8 --timeout 900 2>&1 | tail -6) | tee -a $log
(cd $W && rm -rf _build)
for c in "$@"; do
  echo "=== check $c" | tee -a $log
  VERIF_REPO=$W VERIF_EVIDENCE_DIR=/var/tmp/seed-evidence VERIF_REPLAY_DIR=/var/tmp/seed-replays timeout 3000 /verif/check $c --tier ${TIER:-quick} 2>&1 | grep -E "^VIOLATION|^\[C|BUILD-FAILED|HARNESS|^--- violation|^KNOWN" | head -8 | tee -a $log
done
