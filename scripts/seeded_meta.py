#!/usr/bin/env python3
"""scripts/seeded_meta.py <seed-id> <property> <status> <summary...>  -- writes /verif/seeded/<id>/meta.json
status: caught | caught-after-strengthening | missed | rejected (did not confirm)"""
import json, os, re, sys
sid, prop, status = sys.argv[1:4]
summary = " ".join(sys.argv[4:])
d = '/verif/seeded/' + sid
log = open(os.path.join(d, 'confirm.log')).read() if os.path.exists(os.path.join(d, 'confirm.log')) else ''
checks = {}
cur = None
for line in log.split('\n'):
    m = re.match(r'=== check (\S+)', line)
    if m:
        cur = m.group(1); checks[cur] = {'violations': [], 'summary': None}
    elif cur and line.startswith('--- violation:'):
        checks[cur]['violations'].append(line[len('--- violation:'):].strip())
    elif cur and line.startswith('[' + cur):
        checks[cur]['summary'] = line
tests = re.findall(r'(\d+)% tests passed, (\d+) tests failed out of (\d+)', log)
meta = {'id': sid, 'property': prop, 'origin': 'fresh sub-agent given only the property text and its own scratch worktree',
        'summary': summary, 'status': status, 'existing_tests': ('%s%% passed, %s failed of %s' % tests[-1]) if tests else 'see confirm.log',
        'checks_run': checks, 'files': sorted(os.listdir(d))}
json.dump(meta, open(os.path.join(d, 'meta.json'), 'w'), indent=1)
print(json.dumps(meta)[:300])
