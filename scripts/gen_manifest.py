#!/usr/bin/env python3
"""Regenerates MANIFEST.json from the table below (one entry per claimed property)."""
import json
import subprocess

CLAIMED = {
    "C04": dict(
        text="generated operand tuples (all pairs of a boundary lattice + seeded random integers to 4000 bits and random ratios) x 48 operations x 3 evaluation routes (inlined opcode, apply, constant-folded literals) compared with Python int/Fraction incl. canonical representation and operand immutability; exploration: no mismatch on the generated cases, not a proof",
        note="trusted: Python int/Fraction; decimal reader/writer of exact numbers is cross-checked through the operand echo; (lcm 0 0) excluded (no agreed value)",
        technique="property-based testing against a reference model (Python int/Fraction): boundary-lattice enumeration + seeded random generation"),
    "C16": dict(
        text="(A) Hypothesis histories over 8 root slots and 8 ephemeron slots: create / drop / copy objects, make ephemerons whose key and value components are reached through roots or through other ephemerons' values (incl. a value that refers to its own key), read a key back into the roots, drop ephemerons, allocate garbage, collect; after every step the program prints (broken? key value) of every ephemeron and an adaptive reachability model in Python (roots + values of ephemerons with a live key, to a fixpoint) decides per ephemeron: must be intact with its original key and value (key strongly reachable at every step since creation), must be broken with key and value gone (an explicit full collection ran while the key was unreachable), or either (consistency only); the histories also run under forced collection schedules on the ASan build with the poisoned heap and the heap checker extended to weak and ephemeron-value slots, so a value freed under a live key is a report; (B) port histories (text/binary/fileno-backed input ports, output ports, aliases, close, drop, collect, read): after every explicit collection the number of open descriptors of the process equals base + reachable unclosed ports and every reachable unclosed port still reads the next character of its file; (C) with RLIMIT_NOFILE=40, 400 ports opened through each of the four R7RS openers and dropped unclosed must all open; exploration only",
        note="trusted: the reachability model; (verif-gc) of the driver is one sexp_gc; the descriptor count comes from /proc/self/fd of the forked child; a fileno object's descriptor is owned by its open ports (closing the last port closes it, as in fdopen/fclose); sockets, pipes and process ports are not exercised",
        technique="stateful property-based testing (Hypothesis) against a reachability model with injected collection schedules; resource-count invariant; sanitizer + heap-checker oracle"),
    "C17": dict(
        text="every (srfi 151) export (and srfi 33 aliases) on lattice pairs, lattice x shift counts and seeded random operands (both signs, word-boundary lengths) compared with Python unbounded two's-complement integers; exploration only",
        note="trusted: Python integers; zero-width bit-field-rotate excluded (divides by zero in the SRFI's own reference code)",
        technique="property-based testing against a reference model (Python integers): boundary-lattice enumeration + seeded random generation"),
    "C02": dict(
        text="generated allocation-heavy expressions (typed grammar over allocating primitives of the R7RS libraries and C-backed libraries srfi 1/69/95/151/18/160, chibi json) x forced-collection schedules (every allocation in a window, every n-th with phase, seeded random); oracles: ASan use-after-poison on swept objects, a shadow-mark audit before every collection (every reference reachable from the roots must designate a live object), heap checker after every sweep, and byte-identical output against the unforced run; thorough adds the shipped test corpus under every-n-th schedules; exploration only",
        note="trusted: the hook's poisoning/scribbling and checker (harness/verif_gc.h); programs are deterministic; the unforced run is the reference, so a defect that also corrupts the unforced run is C01's business",
        technique="property-based testing / fault injection: generated programs x injected collection schedules, differential + invariant oracle (ASan poisoning, shadow mark)"),
    "C10": dict(
        text="Hypothesis-generated allocation/drop histories (13 object kinds, sizes from 1 word to 8 MB, bursts, explicit collections) repeated for 8-16 rounds; after every collection the hook's checker validates exact tiling, address-ordered non-overlapping in-bounds free list, clear mark bits and that every slot of every live object designates an object start, and a shadow mark validates reachability before marking; leak oracle: heap total bounded by a multiple of peak live data and not growing between the middle and the last round; exploration only",
        note="trusted: the checker in harness/verif_gc.h; leak-bound constants (16 x peak live + 8 x largest request + 4 MB; 1.5 x mid-run total) calibrated on the unchanged tree (worst observed total/peak-live ratio 37 for bursty histories with small live sets, covered by the additive terms)",
        technique="stateful property-based testing (Hypothesis) with an invariant checker run at every collection and a boundedness oracle"),
    "C01": dict(
        text="call histories (1-10 steps) over a run-time table of every procedure exported by the 15 R7RS-small libraries plus the (chibi) VM primitives (~370 procedures) applied to 0..arity+2 arguments from a typed pool with boundary and ill-typed values, plus generated/mutated source text through both readers and eval, plus nesting depths to 200000; each case runs in a forked child of an ASan build whose Scheme heap is poisoned by the gc.c hook; oracles: no signal / sanitizer report, heap checker after a final collection, and a fixed probe program printing exactly what it prints in a pristine context; exploration only",
        note="non-termination is inconclusive, not a violation; out-of-memory under the 256 MB heap limit is excluded by the property; two open known findings (generic object printer on non-output ports, native reader recursion depth) are excluded by construction and reported as KNOWN-FINDING; record-system internals (make-getter etc.) are outside the claimed domain",
        technique="property-based fuzzing of call sequences and source text with sanitizer (ASan + heap poisoning) and containment-probe oracles"),
    "C03": dict(
        text="programs from a typed, evaluation-order-insensitive grammar over all core and derived forms of the statement, plus the enumerated family of variable-capture patterns (7 roles x nesting depth 1-4, exhaustive in the thorough tier), executed by chibi and by an independent CPS definitional interpreter (pbt/refscheme.py); printed output must be identical; Hypothesis shrinks the choice sequence of a failing program; exploration only",
        note="trusted: refscheme.py as a rendering of R7RS 4/6.10/6.11/7.3 for the generated subset (programs it cannot decide - budget, 'it is an error' - are discarded and counted); uncaught raises are reported by a guard inside the program text",
        technique="property-based differential testing against a reference interpreter (Hypothesis-shrunk program generator + exhaustive enumeration of capture patterns)"),
    "C09": dict(
        text="generated programs biased to what simplify.c rewrites (constant tests, constant lets with shadowing/mutation, overflowing literal arithmetic, dead erroring branches, dead statements) run with the pass on and off in one binary, on the SEXP_USE_SIMPLIFY=0 build and against refscheme.py; arithmetic tuples through the 128-bit helpers run on the default and the SEXP_USE_CUSTOM_LONG_LONGS=1 build and against Python integers; exploration only",
        note="trusted: refscheme.py / Python integers; programs whose meaning R7RS leaves undefined are not generated",
        technique="property-based differential testing across optimisation settings and build variants, anchored by a reference model"),
    "C05": dict(
        text="loop programs built from every chain of 1-2 tail contexts of R7RS 3.5 (22 contexts, exhaustive in the thorough tier; sampled chains of length 3) x 7 call shapes (self/mutual recursion, fixed/rest/optional arity, apply); the VM stack top read from inside the loop at iterations 10..10^6 must be identical at every reading, N up to 10^6 (10^7 thorough) must finish and the heap must not grow with N; non-tail recursion (plain, map, apply, call/cc, accumulating) at depths 1..1.2M must give the right value or the out-of-stack error object and leave the context usable; each shard first proves the oracle can see growth by running one loop with tail calls disabled; exploration only",
        note="trusted: verif-stack-top (driver foreign function reading sexp_context_top as published to foreign calls); CPU-budget overruns are inconclusive",
        technique="property-based testing with a metamorphic/invariant oracle (stack pointer constant across iterations) over an enumerated grammar of tail contexts, with an oracle self-test"),
    "C06": dict(
        text="control scripts (dynamic-wind nesting <= 4, 3 continuations each invoked <= 2 times incl. re-entry, parameterize with/without converter, handlers that return/escape/re-raise, raise and raise-continuable, guard with matching/non-matching/re-raising clauses) rendered as one top-level expression; an enumerated family of small scripts plus Hypothesis-drawn larger ones; the trace must equal the one produced by the CPS reference interpreter (wind list, handler stack and parameterisation from R7RS 6.7/6.10/6.11/7.3); exploration only",
        note="trusted: refscheme.py; scripts stay inside one top-level expression; payloads of secondary exceptions are compared only as 'non-symbol'",
        technique="property-based differential testing against a reference model of the R7RS wind/handler/parameter semantics (enumeration + Hypothesis)"),
    "C07": dict(
        text="programs assembled from 20 macro-use scenarios over 11 macro shapes (binding-introducing, free references to helpers / standard procedures / core keywords, nested ellipsis, literals, macro-defining macros, let-syntax and letrec-syntax closing over locals, local shadowing of if) defined as syntax-rules / er / sc / rsc transformers, nested in wrapper binders; every user binder is renamed to a fresh name, a name used inside a macro template, a core keyword or a standard procedure (admissible = not used by user-written code in scope); the renamed program must print what the un-renamed one prints, and both must print the value computed in Python; exploration only",
        note="trusted: the hand-written expected-value functions of the scenarios; renaming targets respect the admissibility rule of DESIGN.md (reader abbreviations count as uses of quote etc.)",
        technique="metamorphic property-based testing (alpha-renaming invariance) with an absolute expected value per scenario, Hypothesis-shrunk"),
    "C08": dict(
        text="data built by constructor expressions (flonums from 64-bit patterns: half-precision-seeded, boundary and random; all scalar values as chars / inside strings / inside symbols incl. hex escapes, swept in 4096-value blocks (exhaustive in the thorough tier); Hypothesis trees over all number kinds, strings, symbols needing bars, lists, dotted lists, vectors, bytevectors, shared and circular structure) are written by native write, (scheme write) write and write-shared and read back by native read and (scheme read) read; the datum must come back identical (flonums bit-exact), Python must parse every written flonum to the same double, and every valid text (written form decorated with comments/whitespace) must be accepted by both readers with the same result; exploration only",
        note="agreement of the two readers is asserted on valid texts only: on malformed text R7RS defines nothing and the readers are lenient in different places (recorded as classes, not violations); cyclic data are written only by the (scheme write) writers (the native writer has no datum labels) and compared through write(read(write(x))) = write(x); an observed defect outside the generated domain (#e1.2 reads as 1199999999999999/10^15) is described in DESIGN.md",
        technique="round-trip property-based testing (Hypothesis trees, exhaustive scalar sweeps, bit-pattern float sweeps) with an independent parser (Python float) for writer output"),
    "C12": dict(
        text="model-based stateful test: Hypothesis-generated histories (<= 40 operations over 4 named strings mixing 1/2/3/4-byte scalar values: construction, string-set! with every width change at first/middle/last index, fill!, copy! incl. overlapping self copies, substring/copy/append, list/vector/utf8 conversions with ranges, map/for-each/upcase, comparisons, input and output string ports, cursor walks in both directions) rendered as a program that prints after every step the result and, for every string, its length, code points and UTF-8 bytes; compared with a Python list-of-code-points model (UTF-8 via Python's encoder); a quarter of the shards run on the ASan build with the poisoned heap; plus a sweep of scalar values through char->string->utf8->string->char (exhaustive in the thorough tier); exploration only",
        note="trusted: Python's UTF-8 codec and list model; string-set! on literals and reads from an input string port whose string was mutated are not generated (R7RS: error / unspecified)",
        technique="model-based stateful property-based testing (Hypothesis) against a code-point-array model, plus exhaustive sweep"),
    "C15": dict(
        text="(i) Hypothesis families of abstract values (integers incl. bignums, ratios, flonums, chars, strings, symbols, bytevectors, nested lists/vectors to depth 3), each realised through 2-7 independent computation routes (arithmetic leaving spare bignum words, string mutation with width changes, ports, utf8, append/reverse, vector-set! ...): all routes pairwise equal? (eqv? for numbers/chars/symbols) with equal (srfi 69) hash and string-hash, different abstract values never equal?; equal? on circular lists must terminate with the answer computed in Python; (ii) Hypothesis histories (<= 120 steps incl. bulk inserts/deletes of up to 240 keys forcing repeated growth) on SRFI 69 tables with equal?/eqv?/string=? equivalence and equal-but-not-eq duplicate keys against a Python dict keyed by equivalence class; exploration only",
        note="trusted: Python dict/Fraction; eqv? on NaN not asserted; iteration order never compared; the (srfi 128) default hash and (srfi 125) names are not exercised (SRFI 69 layer only)",
        technique="property-based testing: metamorphic route-equivalence for equal?/hash coherence + model-based stateful testing of hash tables (Hypothesis)"),
    "C19": dict(
        text="generated byte strings / texts / JSON values / accessor calls in batches on the ASan build with the poisoned heap: base64 (bytevector and string), quoted-printable, URI escaping (ASCII; non-ASCII is an open known finding), JSON (values of depth <= 6 with every escape class, astral characters, exponents; both json->string and string->json on Python-produced texts), UTF-8 with ranges, (scheme bytevector) accessors of every width/signedness/endianness at in-range and out-of-range offsets, (srfi 160) vectors; oracles: decode(encode(x)) = x, Python's decoder for the same format accepts the encoder output and yields x (base64, quopri, urllib, json, struct.pack), out-of-range accessor calls raise, and hostile (random / mutated) input to every decoder returns or raises without crash or timeout; exploration only",
        note="trusted: Python's codecs; JSON integral floats and integers are identified (JSON has one number type); (chibi csv) is not exercised; one open known finding (URI escaping of non-ASCII text) is excluded by construction",
        technique="round-trip and differential property-based testing against Python's reference codecs, plus fuzzing of decoders under ASan with a poisoned heap"),
    "C20": dict(
        text="SREs from a recursive Hypothesis grammar (depth <= 4-5: literals, strings, char sets, ranges, complements, any/nonl, seq, or, * + ? = >= **, non-greedy forms, submatches, bos/eos/bol/eol, w/nocase, w/case) plus an enumerated family of small SREs, each matched against ALL subject strings up to length 4 (quick) / 7 (thorough) over an alphabet chosen per SRE (abc / aAb / ab+newline); oracle: an independent span-set matcher in Python; checked: regexp-matches? <=> membership, regexp-matches agrees, regexp-search <=> some substring matches, overall and submatch spans delimit text matched by the corresponding subexpression, regexp-fold spans likewise; exploration only",
        note="SREs rejected at compile time are outside the supported subset; which valid match is preferred is not asserted; regexp-fold spans are not asserted for anchored SREs; two open known findings (non-greedy repetition in whole-string mode; or of char sets starting with a complement) are excluded by construction",
        technique="property-based differential testing against an independent reference matcher, exhaustive over subject strings up to a length bound"),
    "C11": dict(
        text="programs whose shared accesses are all mutex-protected (generated thread bodies over guarded cells, bags, nested and timed locks, sticky flags with condition variables, joins incl. of raising threads, yields, sleeps, timed waits that must expire, parameterize and dynamic-wind per thread; turn-passing rings; bounded buffers; 2-6 threads) run under schedules injected through the vm.c hook: the length of every time slice comes from an explicit vector and/or a seeded PRNG in [1,max], max from 1 instruction to the default quantum; systematic part: tiny 2-3 thread lock programs under every first-slice length from 1 to the instruction count of the program x a strided grid of second (and sampled third) slice lengths, then the default quantum; oracles: printed result equals a sequential Python model (or, buffer, the validity predicate every item consumed once in per-producer order), in-program assertions (two threads in a critical section, owner of a locked mutex, early wake-up, generous timeout expired) silent, and no lost wake-up / livelock (the run stops consuming CPU, or burns its whole CPU limit, without finishing - must reproduce in re-runs); exploration only",
        note="trusted: the sequential model; timeouts that must not expire are 1000 s, timeouts that must expire assert only a lower bound; programs need < 0.1 s, the hang limits are 12 s wall / 10 s CPU; a hang seen once and not again in 10 re-runs is counted inconclusive; new threads start with default parameter values (chibi resets them), only per-thread consistency is asserted; I/O-blocked threads and signals are not exercised",
        technique="property-based testing with schedule injection (generated programs x generated / systematically enumerated time-slice schedules), reference-model and invariant oracles, hang detection"),
    "C13": dict(
        text="harness/vthreads.c creates contexts without a parent and drives them from 1-16 OS threads by generated scripts (per thread a start delay and 3-14 create / run-program / collect / destroy operations over <= 4 contexts; programs = 15 workloads over C-backed and Scheme libraries incl. green threads inside a context, 6 mutators that redefine standard procedures, flood the symbol table, register types, mutate quoted constants and set parameters, and a probe of what a pristine context shows); oracle: the outputs of the programs run in one context equal the outputs of the same program sequence run alone in one context of a fresh single-threaded process (heap addresses in printed representations normalised), the ThreadSanitizer build prints no report, and the process does not crash; TSan, plain and ASan builds; exploration only (OS schedules are sampled by start delays and repetition, not enumerated)",
        note="trusted: the single-context run on the plain build as the reference; TSan sees the interpreter and the C libraries it loads (all built with -fsanitize=thread); one OS thread per context at a time (sharing one context between OS threads is outside the statement); quick tier uses <= 8 OS threads per script because 16 shards run in parallel, thorough uses up to 16",
        technique="property-based differential testing of generated multi-context scripts (parallel vs alone) plus ThreadSanitizer as race oracle"),
    "C14": dict(
        text="Hypothesis-generated library graphs (2-6 define-library files written to a scratch directory: uniquely tagged values, random export subsets, renamed exports, exported syntax-rules macros that expand into a private helper, re-exports through (only ...), a shared logging library called from every body) and import-set expressions (only / except / rename / prefix / drop-prefix nested to depth 4, valid by construction) loaded by a fresh chibi-scheme process per graph; oracle: a set-algebra model in Python, compared name by name ((eval 'n env) under guard) over every name of the graph under every prefix used: bound names must evaluate to the modelled tagged value and every other name must be unbound, exported macros must work while their helper stays unbound, each library body is logged once; exploration only",
        note="trusted: the Python model of R7RS 5.2/5.6 import sets (drop-prefix as implemented: strips the prefix from names that have it); import sets naming unknown identifiers and clashing imports are outside the generated domain; mutation of imported bindings is not asserted",
        technique="property-based testing against a reference model (set algebra over generated library graphs and import sets, Hypothesis-shrunk)"),
    "C18": dict(
        text="(i) sort calls over (srfi 95) sort/sort!/merge/sorted? and (srfi 132) list-sort, list-stable-sort, vector-(stable-)sort(!), list-merge, vector-merge, list-delete-neighbor-dups, vector-find-median, vector-select! with opcode (< >) and closure comparators, with and without key, lists and vectors, every length 0-10 plus up to 2000, keys with heavy duplication in random/sorted/reversed/organ-pipe/constant order and mixed numeric representations; oracle: ordered and a permutation of the input ids, stable where the SRFI says so; (ii) Hypothesis model-based histories for (chibi iset), SRFI 113 sets and bags, SRFI 146 mappings, SRFI 134 ideques, SRFI 117 list queues, SRFI 101 random-access lists and a SRFI 1 / SRFI 133 operation table against Python set/Counter/dict/list models with older persistent versions re-queried after later updates; exploration only",
        note="trusted: the Python models and the per-operation templates; iteration order compared only where the SRFI fixes it; operation tables cover the core operations of each library, not every export",
        technique="property-based testing: validity-predicate oracle for sorts (ordered + permutation + stability), model-based stateful testing (Hypothesis) for containers"),
}

NOT_YET = "check not built yet in this session (planned, see DESIGN.md section 4)"


def main():
    props = [json.loads(l) for l in open("/verif/properties.jsonl")]
    commits = subprocess.run(["git", "-C", "/repo", "log", "--format=%h %s"], capture_output=True, text=True).stdout.strip().split("\n")
    hook_commits = [c.split()[0] for c in commits if "verif hooks" in c]
    checks = []
    for pid, c in sorted(CLAIMED.items()):
        checks.append({
            "property_id": pid,
            "quick_cmd": "./check %s --tier quick" % pid,
            "thorough_cmd": "./check %s --tier thorough" % pid,
            "evidence_file": "evidence/%s.json" % pid,
            "replay_cmd_template": "./check %s --replay {path}" % pid,
            "engine": "pbt",
            "level_claimed": {"category": "exploration", "text": c["text"], "design_ref": "DESIGN.md section 4, %s" % pid},
            "level_note": c["note"],
            "technique": c["technique"],
        })
    man = {
        "version": 1,
        "setup_cmd": "python3-vt -c 'import hypothesis' && clang --version >/dev/null && gcc --version >/dev/null && chmod +x /verif/check /verif/scripts/*.sh /verif/scripts/*.py",
        "hooks": {
            "guard": "SEXP_USE_VERIF_HOOKS",
            "enable": "pbt/build.py builds a scratch copy of /repo's working tree with make CPPFLAGS='-DSEXP_USE_VERIF_HOOKS=1 -I/verif/harness' (hook bodies live in /verif/harness/verif_gc.h)",
            "baseline_off_cmd": "scripts/baseline_off.sh",
            "source_commits": hook_commits,
            "add_only": True,
        },
        "engines": [{
            "name": "pbt",
            "path": "check, pbt/, harness/vdriver.c, harness/vthreads.c",
            "serves_properties": sorted(CLAIMED),
            "kind_free_text": "property-based testing / fuzzing: seeded structured generators and Hypothesis strategies, explicit oracles (reference models in Python, round trips, differentials), every case evaluated in a forked child of a pristine chibi context (fork server linked against a fresh build of /repo's working tree), shrinking to replay files",
        }],
        "checks": checks,
        "not_applicable": [{"property_id": p["id"], "reason": NOT_YET} for p in props if p["id"] not in CLAIMED],
        "notes": "see DESIGN.md; known_findings.json lists fixed and open findings",
    }
    json.dump(man, open("/verif/MANIFEST.json", "w"), indent=1)
    print("claimed:", sorted(CLAIMED))


if __name__ == "__main__":
    main()
