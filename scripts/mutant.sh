#!/bin/bash
# scripts/mutant.sh <name> <python-patch-file|diff> <check-id...>   (development aid)
# creates a scratch worktree of /repo at /var/tmp/mut-<name>, applies the patch, runs the checks
# against it (VERIF_REPO), prints the verdict lines and removes the worktree.
set -u
name=$1; patch=$2; shift 2
W=/var/tmp/mut-$name
git -C /repo worktree remove --force $W >/dev/null 2>&1
git -C /repo worktree add --detach $W HEAD >/dev/null 2>&1 || exit 2
if [[ $patch == *.py ]]; then (cd $W && python3 $patch) || { echo "patch failed"; git -C /repo worktree remove --force $W; exit 2; }
else git -C $W apply $patch || { echo "patch failed"; git -C /repo worktree remove --force $W; exit 2; }; fi
git -C $W diff --stat | tail -1
for c in "$@"; do
  VERIF_REPO=$W VERIF_EVIDENCE_DIR=/var/tmp/mut-evidence VERIF_REPLAY_DIR=/var/tmp/mut-replays timeout 3000 /verif/check $c --tier ${TIER:-quick} 2>&1 | grep -E "^VIOLATION|^\[C|BUILD-FAILED|HARNESS|^--- violation" | head -8
done
git -C /repo worktree remove --force $W
