#!/usr/bin/env python3
"""scripts/add_fixed.py <property> <commit>... : record fix: commits of /repo in known_findings.json"""
import json, subprocess, sys
prop = sys.argv[1]
p = '/verif/known_findings.json'
d = json.load(open(p))
have = {f.get('commit') for f in d['findings']}
for c in sys.argv[2:]:
    line = subprocess.run(['git', '-C', '/repo', 'log', '-1', '--format=%h %s', c], capture_output=True, text=True).stdout.strip()
    h, _, msg = line.partition(' ')
    assert msg.startswith('fix:'), line
    if h in have:
        continue
    what = msg[4:].strip()
    d['findings'].append({'property': prop, 'status': 'fixed', 'commit': h, 'what': what,
                          'record': 'fixed: property=%s %s %s' % (prop, h, what)})
json.dump(d, open(p, 'w'), indent=1)
