#!/bin/bash
# Builds /repo's working tree with the verification guard OFF (the default) the
# way the baseline was taken (cmake + ninja) in a scratch directory and runs the
# ctest suite; exit 0 iff every test of BASELINE.json's stable_pass list passes.
set -u
S=$(mktemp -d /var/tmp/chibi-baseline.XXXXXX)
trap 'rm -rf "$S"' EXIT
rsync -a --exclude _build --exclude .git /repo/ "$S/src/"
cmake -G Ninja -S "$S/src" -B "$S/build" -DCMAKE_BUILD_TYPE=RelWithDebInfo -DCMAKE_C_FLAGS=-Wno-error >"$S/cmake.log" 2>&1 || { tail -30 "$S/cmake.log"; echo "BASELINE-OFF: cmake failed"; exit 2; }
cmake --build "$S/build" >"$S/build.log" 2>&1 || { tail -30 "$S/build.log"; echo "BASELINE-OFF: build failed"; exit 2; }
ctest --test-dir "$S/build" -j8 --timeout 900 --output-junit "$S/junit.xml" >"$S/ctest.log" 2>&1
python3 - "$S/junit.xml" <<'PY'
import json, sys, xml.etree.ElementTree as ET
base = json.load(open('/root/.vp/BASELINE.json'))
want = set(n.split('::')[0] for n in base['stable_pass'])
root = ET.parse(sys.argv[1]).getroot()
res = {}
for tc in root.iter('testcase'):
    ok = tc.find('failure') is None and tc.find('error') is None and tc.get('status', 'run') in ('run', 'passed')
    res[tc.get('name')] = ok
missing = sorted(n for n in want if n not in res)
failed = sorted(n for n in want if n in res and not res[n])
print("BASELINE-OFF: %d/%d stable tests passed; failed=%s missing=%s" % (len(want) - len(missing) - len(failed), len(want), failed, missing))
sys.exit(0 if not missing and not failed else 1)
PY
