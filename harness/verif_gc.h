/* verif_gc.h -- verification hooks for chibi-scheme's gc.c / vm.c.
 * Included by /repo/gc.c when built with -DSEXP_USE_VERIF_HOOKS=1 -I/verif/harness.
 * Everything here is inert until a driver (or CHIBI_VERIF_* environment
 * variables) switches a feature on, so a hooks-on build behaves like the stock
 * build by default.
 *
 *  - poisoning (ASan builds): free chunks and the slack after each request
 *  - scribble (any build): fill freed objects with 0xDB
 *  - forced collections on a schedule
 *  - heap checker after every sweep (tiling, free list, mark bits, slots)
 *  - counters
 *  - time-slice schedule for the green-thread scheduler (used from vm.c)
 */
#ifndef VERIF_GC_H
#define VERIF_GC_H

#include <stdint.h>
#include <stdio.h>
#include <stdlib.h>
#include <string.h>

#ifndef __has_feature
#define __has_feature(x) 0
#endif
#if defined(__SANITIZE_ADDRESS__) || __has_feature(address_sanitizer)
#include <sanitizer/asan_interface.h>
#define VERIF_ASAN 1
#define VERIF_POISON(p, n)   ASAN_POISON_MEMORY_REGION((p), (n))
#define VERIF_UNPOISON(p, n) ASAN_UNPOISON_MEMORY_REGION((p), (n))
#else
#define VERIF_ASAN 0
#define VERIF_POISON(p, n)   ((void)0)
#define VERIF_UNPOISON(p, n) ((void)0)
#endif

#define VERIF_MAX_SLICES 512

struct sexp_verif_state {
  /* ---- configuration ---- */
  int armed;            /* forced collections allowed (set once a full context exists) */
  int poison;           /* poison free chunks + slack (ASan builds only) */
  int scribble;         /* overwrite freed objects with 0xDB */
  int check;            /* 1: heap checker after every sweep; 2: also tiling check before mark */
  int gc_mode;          /* 0 off, 1 every n-th (count % n == phase), 2 random p/65536, 3 window [a,b), 4 single index a */
  uint64_t gc_n, gc_phase, gc_a, gc_b, gc_prob, gc_rng;
  int slice_mode;       /* 0 off, 1 vector then default, 2 vector then PRNG in [1,max] */
  int32_t slices[VERIF_MAX_SLICES];
  int nslices;
  uint64_t slice_rng, slice_max;
  /* ---- counters ---- */
  uint64_t allocs;          /* sexp_alloc calls since armed */
  uint64_t gcs, forced_gcs;
  uint64_t merge_none, merge_left, merge_right, merge_both;
  uint64_t grows;
  uint64_t freed_objects;
  uint64_t live_bytes, free_bytes, total_bytes, heaps; /* after last checked sweep */
  uint64_t check_runs, check_fail;
  char fail_msg[256];
  uint64_t sched_entries, slice_idx;
  int in_gc;
};

SEXP_API struct sexp_verif_state sexp_verif;

#ifdef VERIF_GC_IMPLEMENTATION

SEXP_API sexp_uint_t sexp_allocated_bytes (sexp ctx, sexp x);

struct sexp_verif_state sexp_verif;

static int verif_env_done = 0;

static uint64_t verif_xorshift (uint64_t *s) {
  uint64_t x = *s ? *s : 0x9E3779B97F4A7C15ULL;
  x ^= x << 13; x ^= x >> 7; x ^= x << 17;
  *s = x;
  return x;
}

/* CHIBI_VERIF_GC = every:N[:PHASE] | random:P65536:SEED | window:A:B | at:K
   CHIBI_VERIF_GC_START = allocations to skip before arming (default: arm when a
   context with globals exists)
   CHIBI_VERIF_CHECK = 0|1|2, CHIBI_VERIF_POISON = 0|1, CHIBI_VERIF_SCRIBBLE = 0|1 */
static void verif_env_init (void) {
  const char *s;
  verif_env_done = 1;
  if ((s = getenv("CHIBI_VERIF_CHECK"))) sexp_verif.check = atoi(s);
  if ((s = getenv("CHIBI_VERIF_POISON"))) sexp_verif.poison = atoi(s);
  if ((s = getenv("CHIBI_VERIF_SCRIBBLE"))) sexp_verif.scribble = atoi(s);
  if ((s = getenv("CHIBI_VERIF_GC"))) {
    unsigned long long a = 0, b = 0;
    if (sscanf(s, "every:%llu:%llu", &a, &b) >= 1) {
      sexp_verif.gc_mode = 1; sexp_verif.gc_n = a ? a : 1; sexp_verif.gc_phase = b;
    } else if (sscanf(s, "random:%llu:%llu", &a, &b) >= 1) {
      sexp_verif.gc_mode = 2; sexp_verif.gc_prob = a; sexp_verif.gc_rng = b + 1;
    } else if (sscanf(s, "window:%llu:%llu", &a, &b) == 2) {
      sexp_verif.gc_mode = 3; sexp_verif.gc_a = a; sexp_verif.gc_b = b;
    } else if (sscanf(s, "at:%llu", &a) == 1) {
      sexp_verif.gc_mode = 4; sexp_verif.gc_a = a;
    }
    sexp_verif.armed = -1;      /* auto-arm */
  }
  if ((s = getenv("CHIBI_VERIF_SLICES"))) {
    /* "seed:max" => PRNG slices in [1,max] */
    unsigned long long a = 0, b = 0;
    if (sscanf(s, "%llu:%llu", &a, &b) == 2) {
      sexp_verif.slice_mode = 2; sexp_verif.slice_rng = a + 1; sexp_verif.slice_max = b ? b : 1;
    }
  }
}

static int verif_ctx_ready (sexp ctx) {
  sexp g;
  if (!ctx || !sexp_pointerp(ctx)) return 0;
  g = sexp_context_globals(ctx);
  if (!g || !sexp_pointerp(g) || !sexp_vectorp(g)) return 0;
  if (!sexp_vectorp(sexp_global(ctx, SEXP_G_TYPES))) return 0;
  if (!sexp_exceptionp(sexp_global(ctx, SEXP_G_OOM_ERROR))) return 0;
  if (!sexp_context_stack(ctx) || !sexp_pointerp(sexp_context_stack(ctx))) return 0;
  if (!sexp_global(ctx, SEXP_G_FINAL_RESUMER) || !sexp_procedurep(sexp_global(ctx, SEXP_G_FINAL_RESUMER))) return 0;
  return 1;
}

/* called at the top of sexp_alloc */
static int verif_gc_due (sexp ctx) {
  uint64_t k;
  if (!verif_env_done) verif_env_init();
  if (!sexp_verif.gc_mode || !sexp_verif.armed || sexp_verif.in_gc) return 0;
  if (sexp_verif.armed < 0) {   /* auto-arm for the stock binary */
    if (!verif_ctx_ready(ctx)) return 0;
    sexp_verif.armed = 1;
  }
  k = sexp_verif.allocs++;
  switch (sexp_verif.gc_mode) {
  case 1: return (k % sexp_verif.gc_n) == (sexp_verif.gc_phase % sexp_verif.gc_n);
  case 2: return (verif_xorshift(&sexp_verif.gc_rng) & 0xFFFF) < sexp_verif.gc_prob;
  case 3: return k >= sexp_verif.gc_a && k < sexp_verif.gc_b;
  case 4: return k == sexp_verif.gc_a;
  }
  return 0;
}

static void verif_fail (const char *kind, void *at, long a, long b) {
  if (!sexp_verif.check_fail)
    snprintf(sexp_verif.fail_msg, sizeof(sexp_verif.fail_msg),
             "%s at %p (%ld, %ld) gc#%llu", kind, at, a, b,
             (unsigned long long)sexp_verif.gcs);
  if (!sexp_verif.check_fail)
    fprintf(stderr, "VERIF-HEAP-CHECK: %s\n", sexp_verif.fail_msg);
  sexp_verif.check_fail++;
}

/* called for each object sweep is about to free */
static void verif_freed (sexp p, size_t size) {
  sexp_verif.freed_objects++;
  if (size > sizeof(struct sexp_free_list_t)) {
    if (sexp_verif.scribble)
      memset(((char*)p) + sizeof(struct sexp_free_list_t), 0xDB, size - sizeof(struct sexp_free_list_t));
    if (sexp_verif.poison) {
      /* the slack at the end may already be poisoned; poison the rest */
      VERIF_POISON(((char*)p) + sizeof(struct sexp_free_list_t), size - sizeof(struct sexp_free_list_t));
    }
  }
}

/* sweep needs to read the header of the object at p even when p's tail is poisoned: nothing to do,
   headers stay addressable because only bytes beyond the request are poisoned on allocation. */

static void verif_allocated (void *res, size_t requested, size_t aligned) {
  if (sexp_verif.poison && aligned > requested)
    VERIF_POISON(((char*)res) + requested, aligned - requested);
}

static void verif_new_heap (sexp_heap h) {
  sexp_free_list next;
  if (!verif_env_done) verif_env_init();
  if (sexp_verif.poison) {
    next = h->free_list->next;
    if (next && next->size > sizeof(struct sexp_free_list_t))
      VERIF_POISON(((char*)next) + sizeof(struct sexp_free_list_t), next->size - sizeof(struct sexp_free_list_t));
  }
}

/* ---- heap checker ---- */

static sexp_heap verif_heap_of (sexp ctx, void *x) {
  sexp_heap h;
  for (h = sexp_context_heap(ctx); h; h = h->next)
    if ((char*)x >= (char*)sexp_heap_first_block(h) && (char*)x < (char*)sexp_heap_end(h))
      return h;
  return NULL;
}

#define VERIF_UNIT (sexp_heap_align(1))

static int verif_heap_index (sexp ctx, sexp_heap target) {
  sexp_heap h; int i = 0;
  for (h = sexp_context_heap(ctx); h; h = h->next, i++)
    if (h == target) return i;
  return -1;
}

/* full != 0: after sweep (mark bits must be clear, slots must designate object starts)
   full == 0: before mark (tiling and free list only) */
static void verif_check_heap (sexp ctx, int full) {
  sexp_heap h;
  sexp p, end, t, *types, *slots;
  sexp_free_list r, prev;
  size_t size, live = 0, nfree = 0, total = 0;
  sexp_sint_t i, n;
  int nheaps = 0, hi, tag, ntypes;
  unsigned char **bitmaps = NULL;
  uint64_t fails_before = sexp_verif.check_fail;
  sexp_verif.check_runs++;
  types = sexp_vector_data(sexp_global(ctx, SEXP_G_TYPES));
  ntypes = sexp_context_num_types(ctx);
  for (h = sexp_context_heap(ctx); h; h = h->next) nheaps++;
  bitmaps = (unsigned char**) calloc(nheaps, sizeof(unsigned char*));
  for (h = sexp_context_heap(ctx), hi = 0; h; h = h->next, hi++) {
    total += h->size;
    bitmaps[hi] = (unsigned char*) calloc(h->size / VERIF_UNIT / 8 + 2, 1);
    p = sexp_heap_first_block(h);
    end = sexp_heap_end(h);
    prev = h->free_list;
    if ((char*)prev != h->data) verif_fail("free-list-head-moved", prev, 0, 0);
    r = prev->next;
    /* free list: address ordered, in bounds, non-overlapping */
    {
      sexp_free_list a = r, b;
      size_t guard = 0;
      for (; a; a = b) {
        b = a->next;
        if ((char*)a < (char*)p || (char*)a >= (char*)end) { verif_fail("free-chunk-out-of-heap", a, 0, 0); r = NULL; break; }
        if (((sexp_uint_t)a) % VERIF_UNIT) { verif_fail("free-chunk-misaligned", a, 0, 0); r = NULL; break; }
        if (a->size == 0 || a->size % VERIF_UNIT || (char*)a + a->size > (char*)end) { verif_fail("free-chunk-bad-size", a, (long)a->size, 0); r = NULL; break; }
        if (b && (char*)b < (char*)a + a->size) { verif_fail("free-list-unordered-or-overlapping", a, (long)a->size, (long)((char*)b - (char*)a)); r = NULL; break; }
        if (++guard > h->size / VERIF_UNIT + 1) { verif_fail("free-list-cycle", a, 0, 0); r = NULL; break; }
      }
      if (sexp_verif.check_fail != fails_before) goto done;
    }
    /* tiling walk */
    while (p < end) {
      if ((char*)r == (char*)p) {
        nfree += r->size;
        p = (sexp) (((char*)p) + r->size);
        r = r->next;
        continue;
      }
      if (r && (char*)r < (char*)p) { verif_fail("free-chunk-inside-object", r, 0, 0); goto done; }
      tag = sexp_pointer_tag(p);
      if (tag <= 0 || tag >= ntypes) { verif_fail("bad-object-tag", p, tag, ntypes); goto done; }
      size = sexp_heap_align(sexp_allocated_bytes(ctx, p));
      if (size == 0 || (char*)p + size > (char*)end) { verif_fail("object-overruns-heap", p, (long)size, tag); goto done; }
      if (r && (char*)p + size > (char*)r) { verif_fail("object-overlaps-free-chunk", p, (long)size, tag); goto done; }
      if (full && sexp_markedp(p)) verif_fail("mark-bit-left-set", p, tag, 0);
#if VERIF_ASAN
      if (sexp_verif.poison) {
        /* layout: no pointer slot of any object may lie in the poisoned slack beyond its requested size */
        t = types[tag];
        n = sexp_type_num_slots_of_object(t, p);
        slots = (sexp*) (((char*)p) + sexp_type_field_base(t));
        for (i = 0; i < n && (char*)(slots + i) < (char*)p + size; i++)
          if (__asan_address_is_poisoned(&slots[i])) {
            verif_fail("slot-lies-in-poisoned-slack", p, (long)i, tag);
            break;
          }
      }
#endif
      i = ((char*)p - h->data) / VERIF_UNIT;
      bitmaps[hi][i >> 3] |= (unsigned char)(1 << (i & 7));
      live += size;
      p = (sexp) (((char*)p) + size);
    }
    if (p != end) { verif_fail("walk-overshoots-heap-end", p, 0, 0); goto done; }
    if (r) { verif_fail("free-chunk-not-reached-by-walk", r, 0, 0); goto done; }
  }
  if (full) {
    /* every pointer slot of every live object designates an object start */
    for (h = sexp_context_heap(ctx), hi = 0; h; h = h->next, hi++) {
      p = sexp_heap_first_block(h);
      end = sexp_heap_end(h);
      r = h->free_list->next;
      while (p < end) {
        if ((char*)r == (char*)p) { p = (sexp) (((char*)p) + r->size); r = r->next; continue; }
        tag = sexp_pointer_tag(p);
        t = types[tag];
        size = sexp_heap_align(sexp_allocated_bytes(ctx, p));
        n = sexp_type_num_slots_of_object(t, p);
        slots = (sexp*) (((char*)p) + sexp_type_field_base(t));
        if (n > 0 && (char*)(slots + n) > (char*)p + size) {
          verif_fail("slots-exceed-object", p, (long)n, tag);
        } else {
          for (i = 0; i < n; i++) {
            sexp v;
#if VERIF_ASAN
            if (sexp_verif.poison && __asan_address_is_poisoned(&slots[i])) {
              verif_fail("slot-lies-in-poisoned-slack", p, (long)i, tag);
              continue;
            }
#endif
            v = slots[i];
            sexp_heap vh;
            int vhi;
            sexp_sint_t vi;
            if (!v || !sexp_pointerp(v)) continue;
            vh = verif_heap_of(ctx, v);
            if (!vh) { verif_fail("slot-points-outside-heaps", p, (long)i, tag); continue; }
            vhi = verif_heap_index(ctx, vh);
            if (((char*)v - vh->data) % VERIF_UNIT) { verif_fail("slot-misaligned-target", p, (long)i, tag); continue; }
            vi = ((char*)v - vh->data) / VERIF_UNIT;
            if (!(bitmaps[vhi][vi >> 3] & (1 << (vi & 7))))
              verif_fail("slot-points-to-non-object", p, (long)i, tag);
          }
        }
#if SEXP_USE_WEAK_REFERENCES
        if (sexp_type_weak_base(t) > 0) {
          /* after a collection a weak slot holds #f or a live object, and the extra slots kept alive
             through the weak ones (the value of an ephemeron) hold live objects too */
          sexp *ws = (sexp*) (((char*)p) + sexp_type_weak_base(t));
          sexp_sint_t wn = sexp_type_num_weak_slots_of_object(t, p) + sexp_type_weak_len_extra(t);
          for (i = 0; i < wn && (char*)(ws + i) < (char*)p + size; i++) {
            sexp v = ws[i];
            sexp_heap vh;
            sexp_sint_t vi;
            if (!v || !sexp_pointerp(v)) continue;
            vh = verif_heap_of(ctx, v);
            if (!vh) { verif_fail("weak-slot-points-outside-heaps", p, (long)i, tag); continue; }
            if (((char*)v - vh->data) % VERIF_UNIT) { verif_fail("weak-slot-misaligned-target", p, (long)i, tag); continue; }
            vi = ((char*)v - vh->data) / VERIF_UNIT;
            if (!(bitmaps[verif_heap_index(ctx, vh)][vi >> 3] & (1 << (vi & 7))))
              verif_fail("weak-slot-points-to-non-object", p, (long)i, tag);
          }
        }
#endif
        p = (sexp) (((char*)p) + size);
      }
    }
  }
  if (!full && sexp_verif.check > 1 && sexp_verif.check_fail == fails_before) {
    /* shadow mark: everything reachable from the context (slots per type layout + the */
    /* registered C locals of every context) must designate an object start of the tiling */
    struct verif_ref { sexp x, parent; long slot; } *stk;
    size_t cap = 4096, sp = 0;
    unsigned char **seen = (unsigned char**) calloc(nheaps, sizeof(unsigned char*));
    struct sexp_gc_var_t *saves;
    stk = (struct verif_ref*) malloc(cap * sizeof(*stk));
    for (h = sexp_context_heap(ctx), hi = 0; h; h = h->next, hi++)
      seen[hi] = (unsigned char*) calloc(h->size / VERIF_UNIT / 8 + 2, 1);
    stk[sp].x = ctx; stk[sp].parent = NULL; stk[sp].slot = 0; sp++;
    while (sp > 0) {
      struct verif_ref cur = stk[--sp];
      sexp x = cur.x;
      sexp_heap vh;
      int vhi;
      sexp_sint_t vi;
      if (!x || !sexp_pointerp(x)) continue;
      vh = verif_heap_of(ctx, x);
      if (!vh) { verif_fail("reachable-reference-outside-heaps", cur.parent, cur.slot, cur.parent ? (long)sexp_pointer_tag(cur.parent) : -1); continue; }
      vhi = verif_heap_index(ctx, vh);
      vi = ((char*)x - vh->data) / VERIF_UNIT;
      if ((((char*)x - vh->data) % VERIF_UNIT) || !(bitmaps[vhi][vi >> 3] & (1 << (vi & 7)))) {
        verif_fail("reachable-reference-to-freed-or-non-object", cur.parent, cur.slot, cur.parent ? (long)sexp_pointer_tag(cur.parent) : -1);
        continue;
      }
      if (seen[vhi][vi >> 3] & (1 << (vi & 7))) continue;
      seen[vhi][vi >> 3] |= (unsigned char)(1 << (vi & 7));
      tag = sexp_pointer_tag(x);
      t = types[tag];
      n = sexp_type_num_slots_of_object(t, x);
      slots = (sexp*) (((char*)x) + sexp_type_field_base(t));
      if (sp + (size_t)(n > 0 ? n : 0) + 64 >= cap) {
        while (sp + (size_t)(n > 0 ? n : 0) + 64 >= cap) cap *= 2;
        stk = (struct verif_ref*) realloc(stk, cap * sizeof(*stk));
      }
      if (sexp_contextp(x)) {
        long k = 0;
        for (saves = sexp_context_saves(x); saves && k < 60; saves = saves->next, k++)
          if (saves->var) { stk[sp].x = *(saves->var); stk[sp].parent = x; stk[sp].slot = -1 - k; sp++; }
      }
      for (i = 0; i < n; i++) {
        stk[sp].x = slots[i]; stk[sp].parent = x; stk[sp].slot = i; sp++;
      }
    }
    for (hi = 0; hi < nheaps; hi++) free(seen[hi]);
    free(seen);
    free(stk);
  }
  sexp_verif.live_bytes = live;
  sexp_verif.free_bytes = nfree;
  sexp_verif.total_bytes = total;
  sexp_verif.heaps = nheaps;
 done:
  if (bitmaps) {
    for (hi = 0; hi < nheaps; hi++) free(bitmaps[hi]);
    free(bitmaps);
  }
}

/* debugging aid (call from gdb): who refers to target? */
void sexp_verif_find_referrers (sexp ctx, sexp target) {
  sexp_heap h;
  sexp p, end, t, *types, *slots;
  sexp_free_list r;
  size_t size;
  sexp_sint_t i, n;
  types = sexp_vector_data(sexp_global(ctx, SEXP_G_TYPES));
  for (h = sexp_context_heap(ctx); h; h = h->next) {
    p = sexp_heap_first_block(h);
    end = sexp_heap_end(h);
    r = h->free_list->next;
    while (p < end) {
      if ((char*)r == (char*)p) { p = (sexp) (((char*)p) + r->size); r = r->next; continue; }
      t = types[sexp_pointer_tag(p)];
      size = sexp_heap_align(sexp_allocated_bytes(ctx, p));
      n = sexp_type_num_slots_of_object(t, p);
      slots = (sexp*) (((char*)p) + sexp_type_field_base(t));
      for (i = 0; i < n; i++)
        if (slots[i] == target)
          fprintf(stderr, "REFERRER %p tag=%d slot=%ld marked=%d\n", (void*)p, (int)sexp_pointer_tag(p), (long)i, (int)sexp_markedp(p));
      p = (sexp) (((char*)p) + size);
    }
  }
}

static void verif_before_gc (sexp ctx) {
  sexp_verif.in_gc++;
  if (sexp_verif.check > 1 && verif_ctx_ready(ctx)) verif_check_heap(ctx, 0);
}

static void verif_after_gc (sexp ctx) {
  sexp_verif.gcs++;
  if (sexp_verif.check && verif_ctx_ready(ctx)) verif_check_heap(ctx, 1);
  sexp_verif.in_gc--;
}

/* used by vm.c: length of the next time slice */
sexp_sint_t sexp_verif_next_slice (sexp_sint_t fuel) {
  sexp_sint_t res = fuel;
  if (!verif_env_done) verif_env_init();
  sexp_verif.sched_entries++;
  if (!sexp_verif.slice_mode) return fuel;
  if (sexp_verif.slice_idx < (uint64_t)sexp_verif.nslices) {
    res = sexp_verif.slices[sexp_verif.slice_idx];
  } else if (sexp_verif.slice_mode == 2) {
    res = 1 + (sexp_sint_t)(verif_xorshift(&sexp_verif.slice_rng) % sexp_verif.slice_max);
  }
  sexp_verif.slice_idx++;
  return res > 0 ? res : 1;
}

#endif  /* VERIF_GC_IMPLEMENTATION */

SEXP_API sexp_sint_t sexp_verif_next_slice (sexp_sint_t fuel);

#endif  /* VERIF_GC_H */
