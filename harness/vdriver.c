/* vdriver.c -- fork-server driver around a freshly built libchibi-scheme.
 *
 * usage: vdriver [-h heap[/max]] [-m "(lib name)"]... [-p prelude.scm] [-A dir]
 *
 * The parent builds one context (standard environment + the imports given with
 * -m + an optional prelude), then serves requests on fd 0 / answers on fd 3
 * (the fd number is given by VDRIVER_OUT_FD, default 1 = stdout).
 *
 * request : "RUN key=value ...\n" followed by len=<n> bytes of program text
 * answer  : "RES kind=<exit|signal|wall> code=<n> out=<n> err=<n> utime_ms=<n>\n"
 *           followed by <out> bytes of the child's stdout and <err> bytes of stderr
 *
 * Every request runs in a forked child, i.e. starts from the same pristine
 * context; sanitizer aborts and crashes only kill the child.
 */
#define _GNU_SOURCE
#include <stdio.h>
#include <stdlib.h>
#include <string.h>
#include <unistd.h>
#include <errno.h>
#include <fcntl.h>
#include <signal.h>
#include <dirent.h>
#include <time.h>
#include <sys/types.h>
#include <sys/wait.h>
#include <sys/time.h>
#include <sys/resource.h>
#include <sys/mman.h>
#include <sys/stat.h>

#include "chibi/eval.h"
#if SEXP_USE_VERIF_HOOKS
#include "verif_gc.h"
#endif

static sexp ctx, env;
static int out_fd = 1;

/* ------------------------------------------------------------------ */
/* foreign procedures for observation                                  */

static sexp verif_stack_top (sexp ctx, sexp self, sexp_sint_t n) {
  return sexp_make_fixnum(sexp_context_top(ctx));
}

static sexp verif_stack_max (sexp ctx, sexp self, sexp_sint_t n) {
  return sexp_make_fixnum(SEXP_MAX_STACK_SIZE);
}

static sexp verif_stack_size (sexp ctx, sexp self, sexp_sint_t n) {
  return sexp_make_fixnum(sexp_stack_length(sexp_context_stack(ctx)));
}

static sexp verif_heap_total (sexp ctx, sexp self, sexp_sint_t n) {
  sexp_heap h; size_t total = 0;
  for (h = sexp_context_heap(ctx); h; h = h->next) total += h->size;
  return sexp_make_fixnum(total);
}

static sexp verif_heap_free (sexp ctx, sexp self, sexp_sint_t n) {
  sexp_heap h; size_t total = 0; sexp_free_list ls;
  for (h = sexp_context_heap(ctx); h; h = h->next)
    for (ls = h->free_list; ls; ls = ls->next) total += ls->size;
  return sexp_make_fixnum(total);
}

static sexp verif_gc (sexp ctx, sexp self, sexp_sint_t n) {
  size_t freed = 0;
  sexp_gc(ctx, &freed);
  return sexp_make_fixnum(freed);
}

static sexp verif_fd_count (sexp ctx, sexp self, sexp_sint_t n) {
  DIR *d = opendir("/proc/self/fd");
  struct dirent *e; long c = 0;
  if (!d) return SEXP_FALSE;
  while ((e = readdir(d))) if (e->d_name[0] != '.') c++;
  closedir(d);
  return sexp_make_fixnum(c - 1);  /* minus the DIR's own descriptor */
}

static sexp verif_no_tail_calls (sexp ctx, sexp self, sexp_sint_t n, sexp flag) {
  sexp_global(ctx, SEXP_G_NO_TAIL_CALLS_P) = sexp_truep(flag) ? SEXP_TRUE : SEXP_FALSE;
  return SEXP_VOID;
}

static sexp saved_optimizations = NULL;
static sexp verif_set_optimizations (sexp ctx, sexp self, sexp_sint_t n, sexp flag) {
#if SEXP_USE_SIMPLIFY
  if (!saved_optimizations) {
    saved_optimizations = sexp_global(ctx, SEXP_G_OPTIMIZATIONS);
    sexp_preserve_object(ctx, saved_optimizations);
  }
  sexp_global(ctx, SEXP_G_OPTIMIZATIONS) = sexp_truep(flag) ? saved_optimizations : SEXP_NULL;
#endif
  return SEXP_VOID;
}

#if SEXP_USE_VERIF_HOOKS
/* (verif-set-gc mode a b) : mode 0 off, 1 every a (phase b), 2 random p=a/65536 seed b,
   3 window [a,b) counted from now, 4 single index a counted from now */
static sexp verif_set_gc (sexp ctx, sexp self, sexp_sint_t n, sexp mode, sexp a, sexp b) {
  sexp_verif.gc_mode = sexp_unbox_fixnum(mode);
  sexp_verif.allocs = 0;
  switch (sexp_verif.gc_mode) {
  case 1: sexp_verif.gc_n = sexp_unbox_fixnum(a) > 0 ? sexp_unbox_fixnum(a) : 1; sexp_verif.gc_phase = sexp_unbox_fixnum(b); break;
  case 2: sexp_verif.gc_prob = sexp_unbox_fixnum(a); sexp_verif.gc_rng = sexp_unbox_fixnum(b) + 1; break;
  case 3: case 4: sexp_verif.gc_a = sexp_unbox_fixnum(a); sexp_verif.gc_b = sexp_unbox_fixnum(b); break;
  }
  sexp_verif.armed = 1;
  return SEXP_VOID;
}

static int verif_saved_slice_mode = 0;

/* (verif-slices-go!): the slice schedule given with slices=... sgo=1 starts here (not during
   compilation / macro expansion of the program) */
static sexp verif_slices_go (sexp ctx, sexp self, sexp_sint_t n) {
  if (verif_saved_slice_mode) {
    sexp_verif.slice_mode = verif_saved_slice_mode;
    verif_saved_slice_mode = 0;
    sexp_verif.slice_idx = 0;
    sexp_verif.sched_entries = 0;
  }
  return SEXP_VOID;
}

static sexp verif_stats (sexp ctx, sexp self, sexp_sint_t n) {
  sexp_gc_var1(v);
  sexp_gc_preserve1(ctx, v);
  v = sexp_make_vector(ctx, sexp_make_fixnum(16), SEXP_ZERO);
  sexp_vector_set(v, sexp_make_fixnum(0), sexp_make_fixnum(sexp_verif.allocs));
  sexp_vector_set(v, sexp_make_fixnum(1), sexp_make_fixnum(sexp_verif.gcs));
  sexp_vector_set(v, sexp_make_fixnum(2), sexp_make_fixnum(sexp_verif.forced_gcs));
  sexp_vector_set(v, sexp_make_fixnum(3), sexp_make_fixnum(sexp_verif.merge_none));
  sexp_vector_set(v, sexp_make_fixnum(4), sexp_make_fixnum(sexp_verif.merge_left));
  sexp_vector_set(v, sexp_make_fixnum(5), sexp_make_fixnum(sexp_verif.merge_right));
  sexp_vector_set(v, sexp_make_fixnum(6), sexp_make_fixnum(sexp_verif.merge_both));
  sexp_vector_set(v, sexp_make_fixnum(7), sexp_make_fixnum(sexp_verif.grows));
  sexp_vector_set(v, sexp_make_fixnum(8), sexp_make_fixnum(sexp_verif.live_bytes));
  sexp_vector_set(v, sexp_make_fixnum(9), sexp_make_fixnum(sexp_verif.free_bytes));
  sexp_vector_set(v, sexp_make_fixnum(10), sexp_make_fixnum(sexp_verif.total_bytes));
  sexp_vector_set(v, sexp_make_fixnum(11), sexp_make_fixnum(sexp_verif.check_runs));
  sexp_vector_set(v, sexp_make_fixnum(12), sexp_make_fixnum(sexp_verif.check_fail));
  sexp_vector_set(v, sexp_make_fixnum(13), sexp_make_fixnum(sexp_verif.sched_entries));
  sexp_vector_set(v, sexp_make_fixnum(14), sexp_make_fixnum(sexp_verif.freed_objects));
  sexp_vector_set(v, sexp_make_fixnum(15), sexp_make_fixnum(sexp_verif.heaps));
  sexp_gc_release1(ctx);
  return v;
}
#endif

/* ------------------------------------------------------------------ */

static void die (const char *msg) {
  fprintf(stderr, "vdriver: %s\n", msg);
  exit(3);
}

static sexp check (sexp res, const char *what) {
  if (res && sexp_exceptionp(res)) {
    sexp err = sexp_make_output_port(ctx, stderr, SEXP_FALSE);
    fprintf(stderr, "vdriver: error during %s\n", what);
    sexp_print_exception(ctx, res, err);
    sexp_flush(ctx, err);
    exit(3);
  }
  return res;
}

static ssize_t read_full (int fd, char *buf, size_t n) {
  size_t got = 0;
  while (got < n) {
    ssize_t r = read(fd, buf + got, n - got);
    if (r < 0) { if (errno == EINTR) continue; return -1; }
    if (r == 0) break;
    got += r;
  }
  return got;
}

static int write_full (int fd, const char *buf, size_t n) {
  size_t put = 0;
  while (put < n) {
    ssize_t r = write(fd, buf + put, n - put);
    if (r < 0) { if (errno == EINTR) continue; return -1; }
    put += r;
  }
  return 0;
}

/* read one line (without stdio buffering beyond the line) */
static int read_line (int fd, char *buf, size_t cap) {
  size_t i = 0;
  while (i + 1 < cap) {
    char c; ssize_t r = read(fd, &c, 1);
    if (r < 0) { if (errno == EINTR) continue; return -1; }
    if (r == 0) return i ? (int)i : -1;
    if (c == '\n') break;
    buf[i++] = c;
  }
  buf[i] = 0;
  return (int)i;
}

static const char* opt (char *line, const char *key, char *tmp, size_t cap) {
  /* finds " key=value" in line; copies value to tmp */
  size_t kl = strlen(key);
  char *p = line;
  while ((p = strstr(p, key))) {
    if ((p == line || p[-1] == ' ') && p[kl] == '=') {
      char *v = p + kl + 1; size_t i = 0;
      while (v[i] && v[i] != ' ' && i + 1 < cap) { tmp[i] = v[i]; i++; }
      tmp[i] = 0;
      return tmp;
    }
    p += kl;
  }
  return NULL;
}

static void child_run (char *line, char *prog, size_t len) {
  char tmp[8192];
  const char *v;
  int stop = 0;
  long nerr = 0;
  struct rlimit rl;
  sexp_gc_var4(in, obj, res, str);

  if ((v = opt(line, "cpu", tmp, sizeof(tmp)))) {
    rl.rlim_cur = atol(v); rl.rlim_max = atol(v) + 1;
    setrlimit(RLIMIT_CPU, &rl);
  }
  if ((v = opt(line, "nofile", tmp, sizeof(tmp)))) {
    rl.rlim_cur = rl.rlim_max = atol(v);
    setrlimit(RLIMIT_NOFILE, &rl);
  }
  if ((v = opt(line, "stop", tmp, sizeof(tmp)))) stop = atoi(v);
  if ((v = opt(line, "notail", tmp, sizeof(tmp))) && atoi(v))
    sexp_global(ctx, SEXP_G_NO_TAIL_CALLS_P) = SEXP_TRUE;
  if ((v = opt(line, "noopt", tmp, sizeof(tmp))) && atoi(v))
    verif_set_optimizations(ctx, NULL, 1, SEXP_FALSE);
#if SEXP_USE_VERIF_HOOKS
  sexp_verif.sched_entries = 0;
  if ((v = opt(line, "check", tmp, sizeof(tmp)))) sexp_verif.check = atoi(v);
  if ((v = opt(line, "poison", tmp, sizeof(tmp)))) sexp_verif.poison = atoi(v);
  if ((v = opt(line, "scribble", tmp, sizeof(tmp)))) sexp_verif.scribble = atoi(v);
  if ((v = opt(line, "gc", tmp, sizeof(tmp)))) {
    unsigned long long a = 0, b = 0;
    if (sscanf(v, "every:%llu:%llu", &a, &b) >= 1) {
      sexp_verif.gc_mode = 1; sexp_verif.gc_n = a ? a : 1; sexp_verif.gc_phase = b;
    } else if (sscanf(v, "random:%llu:%llu", &a, &b) >= 1) {
      sexp_verif.gc_mode = 2; sexp_verif.gc_prob = a; sexp_verif.gc_rng = b + 1;
    } else if (sscanf(v, "window:%llu:%llu", &a, &b) == 2) {
      sexp_verif.gc_mode = 3; sexp_verif.gc_a = a; sexp_verif.gc_b = b;
    } else if (sscanf(v, "at:%llu", &a) == 1) {
      sexp_verif.gc_mode = 4; sexp_verif.gc_a = a;
    }
    sexp_verif.allocs = 0;
    sexp_verif.armed = sexp_verif.gc_mode ? 1 : 0;
  }
  if ((v = opt(line, "slices", tmp, sizeof(tmp)))) {
    /* "rand:seed:max" or "n1,n2,n3[;rand:seed:max]" */
    const char *p = v;
    sexp_verif.nslices = 0; sexp_verif.slice_idx = 0; sexp_verif.slice_mode = 1;
    while (*p && *p != 'r' && sexp_verif.nslices < VERIF_MAX_SLICES) {
      sexp_verif.slices[sexp_verif.nslices++] = (int32_t) strtol(p, (char**)&p, 10);
      if (*p == ',' || *p == ';') p++;
    }
    if (*p == 'r') {
      unsigned long long a = 0, b = 0;
      if (sscanf(p, "rand:%llu:%llu", &a, &b) == 2) {
        sexp_verif.slice_mode = 2; sexp_verif.slice_rng = a + 1; sexp_verif.slice_max = b ? b : 1;
      }
    }
  }
  if ((v = opt(line, "sgo", tmp, sizeof(tmp))) && atoi(v) && sexp_verif.slice_mode) {
    verif_saved_slice_mode = sexp_verif.slice_mode;
    sexp_verif.slice_mode = 0;
  }
#endif

  sexp_gc_preserve4(ctx, in, obj, res, str);
  str = sexp_c_string(ctx, prog, len);
  in = sexp_open_input_string(ctx, str);
  for (;;) {
    obj = sexp_read(ctx, in);
    if (obj == SEXP_EOF) break;
    if (sexp_exceptionp(obj)) {
      sexp out = sexp_current_output_port(ctx);
      if (sexp_oportp(out)) { sexp_flush(ctx, out); }
      fflush(stdout);
      printf("\n#!READ-ERROR ");
      fflush(stdout);
      if (sexp_oportp(out)) { sexp_print_exception(ctx, obj, out); sexp_flush(ctx, out); }
      fflush(stdout);
      nerr++;
      break;
    }
    sexp_context_top(ctx) = 0;
    if (!(sexp_idp(obj) || sexp_pairp(obj) || sexp_nullp(obj)))
      obj = sexp_make_lit(ctx, obj);
    res = sexp_eval(ctx, obj, env);
    if (res && sexp_exceptionp(res)) {
      sexp out = sexp_current_output_port(ctx);
      nerr++;
      if (sexp_oportp(out)) sexp_flush(ctx, out);
      fflush(stdout);
      if (res == sexp_global(ctx, SEXP_G_OOM_ERROR)) printf("\n#!OOM\n");
      else if (res == sexp_global(ctx, SEXP_G_OOS_ERROR)) printf("\n#!OOS\n");
      else {
        printf("\n#!ERR ");
        fflush(stdout);
        if (sexp_oportp(out)) { sexp_print_exception(ctx, res, out); sexp_flush(ctx, out); }
      }
      fflush(stdout);
      if (stop) break;
    }
  }
  {
    sexp out = sexp_current_output_port(ctx);
    if (sexp_oportp(out)) sexp_flush(ctx, out);
    fflush(stdout);
  }
#if SEXP_USE_VERIF_HOOKS
  sexp_verif.armed = 0;
  if ((v = opt(line, "finalgc", tmp, sizeof(tmp))) && atoi(v)) {
    /* a last collection with the checker on: dangling references stored into live data show up here */
    sexp_gc(ctx, NULL);
  }
  printf("\n#!END errs=%ld allocs=%llu gcs=%llu forced=%llu check_runs=%llu check_fail=%llu sched=%llu msg=%s\n",
         nerr,
         (unsigned long long)sexp_verif.allocs, (unsigned long long)sexp_verif.gcs,
         (unsigned long long)sexp_verif.forced_gcs, (unsigned long long)sexp_verif.check_runs,
         (unsigned long long)sexp_verif.check_fail, (unsigned long long)sexp_verif.sched_entries,
         sexp_verif.check_fail ? sexp_verif.fail_msg : "-");
#else
  printf("\n#!END errs=%ld\n", nerr);
#endif
  fflush(stdout);
  sexp_gc_release4(ctx);
  _exit(0);
}

static char* slurp_fd (int fd, size_t *len) {
  struct stat st;
  char *buf;
  if (fstat(fd, &st) < 0) { *len = 0; return NULL; }
  buf = (char*) malloc(st.st_size + 1);
  lseek(fd, 0, SEEK_SET);
  *len = read_full(fd, buf, st.st_size);
  return buf;
}

int main (int argc, char **argv) {
  sexp_uint_t heap_size = 0, heap_max = SEXP_MAXIMUM_HEAP_SIZE;
  char imports[8192] = "";
  const char *prelude = NULL;
  char *extra_dirs[16]; int n_dirs = 0;
  int i;
  char line[16384];
  sexp e, tmp, sym;

  for (i = 1; i < argc; i++) {
    if (!strcmp(argv[i], "-h") && i + 1 < argc) {
      char *p; heap_size = strtoul(argv[++i], &p, 0);
      if (*p == 'k' || *p == 'K') { heap_size *= 1024; p++; }
      else if (*p == 'm' || *p == 'M') { heap_size *= 1024*1024; p++; }
      else if (*p == 'g' || *p == 'G') { heap_size *= 1024*1024*1024UL; p++; }
      if (*p == '/') {
        heap_max = strtoul(p + 1, &p, 0);
        if (*p == 'k' || *p == 'K') heap_max *= 1024;
        else if (*p == 'm' || *p == 'M') heap_max *= 1024*1024;
        else if (*p == 'g' || *p == 'G') heap_max *= 1024*1024*1024UL;
        else if (*p) die("bad heap size suffix");
      }
    } else if (!strcmp(argv[i], "-m") && i + 1 < argc) {
      strncat(imports, " '", sizeof(imports) - strlen(imports) - 1);
      strncat(imports, argv[++i], sizeof(imports) - strlen(imports) - 1);
    } else if (!strcmp(argv[i], "-p") && i + 1 < argc) {
      prelude = argv[++i];
    } else if (!strcmp(argv[i], "-A") && i + 1 < argc) {
      if (n_dirs < 16) extra_dirs[n_dirs++] = argv[++i];
    } else {
      die("bad arguments");
    }
  }
  if (getenv("VDRIVER_OUT_FD")) out_fd = atoi(getenv("VDRIVER_OUT_FD"));
  if (!imports[0]) strcpy(imports, " '(scheme base)");

  sexp_scheme_init();
  ctx = sexp_make_eval_context(NULL, NULL, NULL, heap_size, heap_max);
  if (!ctx) die("out of memory creating context");
  env = sexp_context_env(ctx);
  for (i = 0; i < n_dirs; i++)
    sexp_add_module_directory(ctx, tmp = sexp_c_string(ctx, extra_dirs[i], -1), SEXP_FALSE);
  e = check(sexp_load_standard_env(ctx, env, SEXP_SEVEN), "load-standard-env");
  snprintf(line, sizeof(line), "(mutable-environment%s)", imports);
  e = check(sexp_eval_string(ctx, line, -1, sexp_global(ctx, SEXP_G_META_ENV)), "imports");
  sexp_preserve_object(ctx, e);
  /* (import ...) at top level, as main.c's repl environment */
  sym = sexp_intern(ctx, "repl-import", -1);
  tmp = sexp_env_ref(ctx, sexp_global(ctx, SEXP_G_META_ENV), sym, SEXP_VOID);
  sym = sexp_intern(ctx, "import", -1);
  sexp_env_define(ctx, e, sym, tmp);
  sexp_load_standard_ports(ctx, e, stdin, stdout, stderr, 0);
  env = sexp_make_env(ctx);
  sexp_preserve_object(ctx, env);
  sexp_env_parent(env) = e;
  sexp_context_env(ctx) = env;
  sexp_set_parameter(ctx, sexp_global(ctx, SEXP_G_META_ENV), sexp_global(ctx, SEXP_G_INTERACTION_ENV_SYMBOL), env);

  sexp_define_foreign(ctx, env, "verif-stack-top", 0, verif_stack_top);
  sexp_define_foreign(ctx, env, "verif-stack-size", 0, verif_stack_size);
  sexp_define_foreign(ctx, env, "verif-stack-max", 0, verif_stack_max);
  sexp_define_foreign(ctx, env, "verif-heap-total", 0, verif_heap_total);
  sexp_define_foreign(ctx, env, "verif-heap-free", 0, verif_heap_free);
  sexp_define_foreign(ctx, env, "verif-gc", 0, verif_gc);
  sexp_define_foreign(ctx, env, "verif-fd-count", 0, verif_fd_count);
  sexp_define_foreign(ctx, env, "verif-no-tail-calls!", 1, verif_no_tail_calls);
  sexp_define_foreign(ctx, env, "verif-set-optimizations!", 1, verif_set_optimizations);
#if SEXP_USE_VERIF_HOOKS
  sexp_define_foreign(ctx, env, "verif-set-gc!", 3, verif_set_gc);
  sexp_define_foreign(ctx, env, "verif-stats", 0, verif_stats);
  sexp_define_foreign(ctx, env, "verif-slices-go!", 0, verif_slices_go);
#endif

  if (prelude) {
    tmp = sexp_c_string(ctx, prelude, -1);
    sexp_preserve_object(ctx, tmp);
    check(sexp_load(ctx, tmp, env), "prelude");
  }
  fflush(stdout);

  signal(SIGPIPE, SIG_IGN);
  write_full(out_fd, "READY\n", 6);

  for (;;) {
    char tmpv[64]; const char *v;
    size_t len = 0; char *prog;
    long wall_ms = 60000;
    int fd_out, fd_err, status = 0, timed_out = 0;
    pid_t pid, w;
    struct rusage ru;
    struct timespec t0, t1;
    char hdr[256];
    char *obuf, *ebuf; size_t olen = 0, elen = 0;

    if (read_line(0, line, sizeof(line)) < 0) break;
    if (!strncmp(line, "QUIT", 4)) break;
    if (strncmp(line, "RUN", 3)) continue;
    if ((v = opt(line, "len", tmpv, sizeof(tmpv)))) len = strtoul(v, NULL, 10);
    if ((v = opt(line, "wall", tmpv, sizeof(tmpv)))) wall_ms = atol(v) * 1000;
    prog = (char*) malloc(len + 1);
    if (read_full(0, prog, len) != (ssize_t)len) break;
    prog[len] = 0;

    fd_out = memfd_create("vd-out", 0);
    fd_err = memfd_create("vd-err", 0);
    if (fd_out < 0 || fd_err < 0) die("memfd_create");
    clock_gettime(CLOCK_MONOTONIC, &t0);
    pid = fork();
    if (pid < 0) die("fork");
    if (pid == 0) {
      int dn = open("/dev/null", O_RDONLY);
      dup2(dn, 0); close(dn);
      dup2(fd_out, 1); dup2(fd_err, 2);
      close(fd_out); close(fd_err);
      if (out_fd > 2) close(out_fd);
      child_run(line, prog, len);
      _exit(0);
    }
    memset(&ru, 0, sizeof(ru));
    for (;;) {
      struct timespec ts = {0, 200000};
      w = wait4(pid, &status, WNOHANG, &ru);
      if (w == pid) break;
      if (w < 0 && errno != EINTR) break;
      clock_gettime(CLOCK_MONOTONIC, &t1);
      if ((t1.tv_sec - t0.tv_sec) * 1000 + (t1.tv_nsec - t0.tv_nsec) / 1000000 > wall_ms) {
        kill(pid, SIGKILL);
        timed_out = 1;
        wait4(pid, &status, 0, &ru);
        break;
      }
      nanosleep(&ts, NULL);
    }
    obuf = slurp_fd(fd_out, &olen);
    ebuf = slurp_fd(fd_err, &elen);
    close(fd_out); close(fd_err);
    snprintf(hdr, sizeof(hdr), "RES kind=%s code=%d out=%zu err=%zu utime_ms=%ld\n",
             timed_out ? "wall" : WIFSIGNALED(status) ? "signal" : "exit",
             WIFSIGNALED(status) ? WTERMSIG(status) : WEXITSTATUS(status),
             olen, elen,
             (long)(ru.ru_utime.tv_sec * 1000 + ru.ru_utime.tv_usec / 1000
                    + ru.ru_stime.tv_sec * 1000 + ru.ru_stime.tv_usec / 1000));
    if (write_full(out_fd, hdr, strlen(hdr)) < 0) break;
    if (olen && write_full(out_fd, obuf, olen) < 0) break;
    if (elen && write_full(out_fd, ebuf, elen) < 0) break;
    free(obuf); free(ebuf); free(prog);
  }
  return 0;
}
