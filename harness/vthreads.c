/* vthreads.c -- embedding harness for C13: independent contexts driven from several OS threads.
 *
 * usage: vthreads <script-file>
 * script:
 *   THREADS <n>
 *   THREAD <start-delay-us> <nops>
 *   C <k>                 create context k (k < 8) of this thread: new heap, standard env, ports
 *   R <k> <len>\n<bytes>  read and evaluate the program in context k with output captured
 *   D <k>                 destroy context k
 *   G <k>                 force a collection in context k
 *   ...
 * output (stdout), one record per R op:  #!OUT <thread> <opindex> <len>\n<bytes>\n
 * and a final #!DONE line.  All threads start together behind a barrier, each after its delay.
 */
#include <chibi/eval.h>
#include <pthread.h>
#include <stdio.h>
#include <stdlib.h>
#include <string.h>
#include <unistd.h>

#define MAX_OPS 256
#define MAX_CTX 8

struct op { char kind; int k; char *prog; size_t len; char *out; size_t outlen; };
struct thread_spec { int id; long delay_us; int nops; struct op ops[MAX_OPS]; };

static pthread_barrier_t barrier;

static void append (char **buf, size_t *len, const char *s, size_t n) {
  *buf = (char*) realloc(*buf, *len + n + 1);
  memcpy(*buf + *len, s, n);
  *len += n;
  (*buf)[*len] = 0;
}

static sexp make_context (sexp *envp) {
  sexp ctx, env, e, tmp, sym;
  ctx = sexp_make_eval_context(NULL, NULL, NULL, 0, 0);
  if (!ctx) return NULL;
  env = sexp_context_env(ctx);
  e = sexp_load_standard_env(ctx, env, SEXP_SEVEN);
  if (sexp_exceptionp(e)) { sexp_destroy_context(ctx); return NULL; }
  e = sexp_eval_string(ctx, "(mutable-environment '(scheme base))", -1, sexp_global(ctx, SEXP_G_META_ENV));
  if (sexp_exceptionp(e)) { sexp_destroy_context(ctx); return NULL; }
  sexp_preserve_object(ctx, e);
  sym = sexp_intern(ctx, "repl-import", -1);
  tmp = sexp_env_ref(ctx, sexp_global(ctx, SEXP_G_META_ENV), sym, SEXP_VOID);
  sym = sexp_intern(ctx, "import", -1);
  sexp_env_define(ctx, e, sym, tmp);
  sexp_load_standard_ports(ctx, e, stdin, stdout, stderr, 1);
  env = sexp_make_env(ctx);
  sexp_preserve_object(ctx, env);
  sexp_env_parent(env) = e;
  sexp_context_env(ctx) = env;
  sexp_set_parameter(ctx, sexp_global(ctx, SEXP_G_META_ENV), sexp_global(ctx, SEXP_G_INTERACTION_ENV_SYMBOL), env);
  *envp = env;
  return ctx;
}

static void run_program (sexp ctx, sexp env, struct op *op) {
  sexp_gc_var5(in, obj, res, str, out);
  sexp_gc_preserve5(ctx, in, obj, res, str, out);
  out = sexp_open_output_string(ctx);
  sexp_set_parameter(ctx, env, sexp_global(ctx, SEXP_G_CUR_OUT_SYMBOL), out);
  str = sexp_c_string(ctx, op->prog, op->len);
  in = sexp_open_input_string(ctx, str);
  for (;;) {
    obj = sexp_read(ctx, in);
    if (obj == SEXP_EOF) break;
    if (sexp_exceptionp(obj)) {
      sexp_write_string(ctx, "\n#!READ-ERROR ", out);
      sexp_print_exception(ctx, obj, out);
      break;
    }
    sexp_context_top(ctx) = 0;
    if (!(sexp_idp(obj) || sexp_pairp(obj) || sexp_nullp(obj)))
      obj = sexp_make_lit(ctx, obj);
    res = sexp_eval(ctx, obj, env);
    if (res && sexp_exceptionp(res)) {
      sexp_write_string(ctx, "\n#!ERR ", out);
      sexp_print_exception(ctx, res, out);
    }
  }
  str = sexp_get_output_string(ctx, out);
  if (sexp_stringp(str))
    append(&op->out, &op->outlen, sexp_string_data(str), sexp_string_size(str));
  else
    append(&op->out, &op->outlen, "#!NO-OUTPUT", 11);
  sexp_gc_release5(ctx);
}

static void* thread_main (void *arg) {
  struct thread_spec *t = (struct thread_spec*) arg;
  sexp ctxs[MAX_CTX], envs[MAX_CTX];
  int i;
  for (i = 0; i < MAX_CTX; i++) ctxs[i] = NULL;
  pthread_barrier_wait(&barrier);
  if (t->delay_us > 0) usleep(t->delay_us);
  for (i = 0; i < t->nops; i++) {
    struct op *op = &t->ops[i];
    int k = op->k;
    switch (op->kind) {
    case 'C':
      if (ctxs[k]) sexp_destroy_context(ctxs[k]);
      ctxs[k] = make_context(&envs[k]);
      break;
    case 'R':
      if (ctxs[k]) run_program(ctxs[k], envs[k], op);
      else append(&op->out, &op->outlen, "#!NO-CONTEXT", 12);
      break;
    case 'G':
      if (ctxs[k]) sexp_gc(ctxs[k], NULL);
      break;
    case 'D':
      if (ctxs[k]) { sexp_destroy_context(ctxs[k]); ctxs[k] = NULL; }
      break;
    }
  }
  for (i = 0; i < MAX_CTX; i++)
    if (ctxs[i]) sexp_destroy_context(ctxs[i]);
  return NULL;
}

int main (int argc, char **argv) {
  FILE *f;
  int n, i, j;
  struct thread_spec *specs;
  pthread_t *tids;
  if (argc < 2) { fprintf(stderr, "usage: vthreads script\n"); return 2; }
  f = fopen(argv[1], "rb");
  if (!f) { perror("script"); return 2; }
  if (fscanf(f, " THREADS %d", &n) != 1 || n < 1 || n > 64) { fprintf(stderr, "bad script header\n"); return 2; }
  specs = (struct thread_spec*) calloc(n, sizeof(struct thread_spec));
  tids = (pthread_t*) calloc(n, sizeof(pthread_t));
  for (i = 0; i < n; i++) {
    specs[i].id = i;
    if (fscanf(f, " THREAD %ld %d", &specs[i].delay_us, &specs[i].nops) != 2 || specs[i].nops > MAX_OPS) {
      fprintf(stderr, "bad thread header %d\n", i); return 2;
    }
    for (j = 0; j < specs[i].nops; j++) {
      struct op *op = &specs[i].ops[j];
      char kind; int k; unsigned long len = 0;
      if (fscanf(f, " %c %d", &kind, &k) != 2 || k < 0 || k >= MAX_CTX) { fprintf(stderr, "bad op\n"); return 2; }
      op->kind = kind; op->k = k;
      if (kind == 'R') {
        if (fscanf(f, " %lu", &len) != 1) { fprintf(stderr, "bad R op\n"); return 2; }
        fgetc(f);  /* the newline */
        op->prog = (char*) malloc(len + 1);
        if (fread(op->prog, 1, len, f) != len) { fprintf(stderr, "short program\n"); return 2; }
        op->prog[len] = 0;
        op->len = len;
      }
    }
  }
  fclose(f);
  sexp_scheme_init();
  pthread_barrier_init(&barrier, NULL, n);
  for (i = 0; i < n; i++) {
    pthread_attr_t attr;
    pthread_attr_init(&attr);
    pthread_attr_setstacksize(&attr, 64UL * 1024 * 1024);
    pthread_create(&tids[i], &attr, thread_main, &specs[i]);
  }
  for (i = 0; i < n; i++) pthread_join(tids[i], NULL);
  for (i = 0; i < n; i++)
    for (j = 0; j < specs[i].nops; j++)
      if (specs[i].ops[j].kind == 'R') {
        printf("#!OUT %d %d %lu\n", i, j, (unsigned long) specs[i].ops[j].outlen);
        fwrite(specs[i].ops[j].out ? specs[i].ops[j].out : "", 1, specs[i].ops[j].outlen, stdout);
        printf("\n");
      }
  printf("#!DONE\n");
  fflush(stdout);
  return 0;
}
