;; helpers of the C11 (green threads) check; loaded once by vdriver before forking
(define nviol 0)
(define viol-log '())
(define (viol! what)
  (set! nviol (+ nviol 1))
  (set! viol-log (cons what viol-log)))

(define (busy n)
  (let lp ((i 0) (a 0)) (if (< i n) (lp (+ i 1) (+ a i)) a)))

;; a guarded mutex: #(mutex in-critical-section-count)
(define (make-gm) (vector (make-mutex) 0))

(define (gm-enter! g timed)
  (if timed
      (if (not (mutex-lock! (vector-ref g 0) 1000)) (viol! 'timed-lock-expired))
      (if (not (mutex-lock! (vector-ref g 0))) (viol! 'lock-returned-false)))
  (vector-set! g 1 (+ (vector-ref g 1) 1))
  (if (> (vector-ref g 1) 1) (viol! 'two-threads-in-critical-section))
  (if (not (eq? (mutex-state (vector-ref g 0)) (current-thread))) (viol! 'locked-mutex-not-owned-by-locker)))

(define (gm-leave! g)
  (if (not (eq? (mutex-state (vector-ref g 0)) (current-thread))) (viol! 'mutex-owner-changed-inside-critical-section))
  (vector-set! g 1 (- (vector-ref g 1) 1))
  (mutex-unlock! (vector-ref g 0)))

(define (ms-since j0)
  (/ (* 1000 (- (current-jiffy) j0)) (jiffies-per-second)))

(define (sleep-ms! ms)
  (let ((j0 (current-jiffy)))
    (thread-sleep! (/ ms 1000.0))
    (if (< (ms-since j0) (* ms 0.9)) (viol! (list 'sleep-returned-early ms)))))

;; wait on a condition variable nobody signals, with a timeout that must expire
(define (cv-timeout! ms)
  (let ((m (make-mutex)) (cv (make-condition-variable)) (j0 (current-jiffy)))
    (mutex-lock! m)
    (if (mutex-unlock! m cv (/ ms 1000.0)) (viol! 'unsignalled-wait-returned-true))
    (if (< (ms-since j0) (* ms 0.9)) (viol! (list 'timed-wait-returned-early ms)))))

(define (join-result t timed)
  (guard (e (#t (list 'raised (if (exception? e) (exception-irritants e) e))))
    (if timed (thread-join! t 1000) (thread-join! t))))

(define (iota n) (let lp ((i (- n 1)) (acc '())) (if (< i 0) acc (lp (- i 1) (cons i acc)))))
