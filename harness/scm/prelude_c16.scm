;; helpers of the C16 (weak references, finalizers) check
(define roots (make-vector 8 #f))
(define ephs (make-vector 8 #f))

(define (make-obj id) (vector 'obj id))

(define (obj-id x)
  (cond ((not x) #f)
        ((and (vector? x) (= (vector-length x) 2) (eq? (vector-ref x 0) 'obj)) (vector-ref x 1))
        (else 'junk)))

(define (at-root r) (vector-ref roots r))
(define (at-eph e i)
  (let ((v (ephemeron-value (vector-ref ephs e))))
    (if (vector? v) (vector-ref v i) (list-ref v i))))

;; a value that does not fit into the small holes a collection leaves behind: it is allocated at the high end of the heap
(define (big-value items)
  (let ((v (make-vector 400 #f)))
    (let lp ((i 0) (ls items))
      (if (pair? ls) (begin (vector-set! v i (car ls)) (lp (+ i 1) (cdr ls))) v))))

(define (vector-ids v)
  (let lp ((i 0) (acc '()))
    (if (or (= i (vector-length v)) (not (vector-ref v i)))
        (reverse acc)
        (lp (+ i 1) (cons (obj-id (vector-ref v i)) acc)))))

;; short-lived small objects: after the next collection they are holes at the low end of the heap
(define (junk-pairs n)
  (let lp ((i 0) (acc '())) (if (< i n) (lp (+ i 1) (cons i acc)) (length acc))))

(define (observe)
  (let lp ((i 0) (acc '()))
    (if (= i (vector-length ephs))
        (begin (write (reverse acc)) (newline) #t)
        (let ((e (vector-ref ephs i)))
          (lp (+ i 1)
              (cons (if e
                        ;; the key is read first and held, so the three reads see one state even when a
                        ;; forced collection runs between them
                        (let* ((k (ephemeron-key e))
                               (v (ephemeron-value e))
                               (b (ephemeron-broken? e)))
                          (list (if b 'broken 'intact)
                                (obj-id k)
                                (cond ((pair? v) (map obj-id v))
                                      ((vector? v) (vector-ids v))
                                      ((null? v) '())
                                      ((not v) 'none)
                                      (else 'junk))))
                        '-)
                    acc))))))

;; ---- ports and descriptors
(define ports (make-vector 8 #f))
(define (port-state i)
  (let ((p (vector-ref ports i)))
    (cond ((not p) '-)
          ((input-port? p)
           (guard (e (#t 'read-error))
             (let ((c (read-char p))) (if (eof-object? c) 'eof c))))
          (else
           (guard (e (#t 'write-error))
             (write-char #\x p) (flush-output-port p) 'wrote)))))
